#!/usr/bin/env python3
"""Prints the markdown table of DESIGN.md section 12 from /verif/seeded/*/meta.json."""
import glob
import json
import os

rows = []
for f in sorted(glob.glob("/verif/seeded/*/meta.json")):
    m = json.load(open(f))
    notes = m.get("needs", "")
    if not notes and os.path.exists(os.path.join(os.path.dirname(f), "notes.md")):
        notes = open(os.path.join(os.path.dirname(f), "notes.md")).read()
    first = ""
    for ln in notes.splitlines():
        ln = ln.strip(" #*-")
        if len(ln) > 25:
            first = ln
            break
    res = []
    for c, r in sorted(m.get("checks_run_against_it", {}).items()):
        cl = ""
        for o in r.get("output", []):
            if o.strip().startswith("clause"):
                cl = o.strip().split()[1]
                break
        res.append("%s: %s" % (c, ("**caught** (`%s`)" % cl) if r["exit"] == 1 else ("inconclusive" if r["exit"] == 2 else "quiet")))
    ok = m.get("confirmed_in_scratch_worktree", {})
    conf = all(ok.get(k) for k in ("patch_applies", "builds", "baseline_5_packages_pass", "demo_passes_on_original", "demo_fails_with_change"))
    if not m["breaks"]:
        # a property-preserving refactoring: an exit 1 is a FALSE alarm
        res = [x.replace("**caught**", "**FALSE ALARM**") for x in res]
        if m.get("checks_run_after_correction"):
            res.append("after the correction of the clause: " + ", ".join("%s quiet" % c for c, r in sorted(m["checks_run_after_correction"].items()) if r["exit"] == 0))
        rows.append("| `%s` | nothing (refactoring) | %s | n/a | %s |" % (m["name"], first[:170].replace("|", "/"), "; ".join(res)))
        continue
    rows.append("| `%s` | %s | %s | %s | %s |" % (m["name"], ",".join(m["breaks"]), first[:170].replace("|", "/"), "yes" if conf else "NO", "; ".join(res)))
print("| seeded change | breaks | what it is (from the author's notes) | confirmed | checks run against it (quick tier) |")
print("|---|---|---|---|---|")
print("\n".join(rows))

#!/bin/bash
# try_seed.sh <seeded/<name>> <check> [<check> ...] : apply the stored patch to /repo, run the quick checks, undo
cd /verif
export VERIF_SCRATCH_EVIDENCE=/tmp/verif_scratch_evidence
d=$1; shift
git -C /repo status --short | grep -q . && { echo "REPO DIRTY"; exit 2; }
git -C /repo apply "$(realpath $d/patch.diff)" || { echo "apply failed"; exit 2; }
for c in "$@"; do
  out=$(bin/check $c --tier ${TIER:-quick} 2>&1); rc=$?
  echo "$(basename $d) $c rc=$rc $(echo "$out" | grep -E '^(VIOLATION|INCONCLUSIVE|  clause)' | head -3 | tr '\n' '|' | cut -c1-300)"
done
git -C /repo checkout -- .
rm -f /verif/replays/*.json

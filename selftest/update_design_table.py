#!/usr/bin/env python3
"""Replaces the table of DESIGN.md section 12 by the one generated from /verif/seeded/*/meta.json (selftest/seeded_table.py)."""
import subprocess
p = "/verif/DESIGN.md"
s = open(p).read()
i = s.index("| seeded change | breaks |")
j = s.index("## 13.", i)
table = subprocess.run(["python3", "/verif/selftest/seeded_table.py"], stdout=subprocess.PIPE, text=True).stdout
open(p, "w").write(s[:i] + table.rstrip("\n") + "\n\n" + s[j:])
print("table rows:", table.count("\n") - 2)

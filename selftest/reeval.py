#!/usr/bin/env python3
"""Re-run the checks against seeded changes already stored under /verif/seeded (after the machinery changed).

usage: reeval.py [--tier quick] <name-prefix> [<name-prefix> ...]      (no prefix: every stored change)

For each /verif/seeded/<name>/ : apply patch.diff to /repo, run the checks listed in meta.json
(`checks_run_against_it`), undo the patch straight afterwards, and rewrite the results in meta.json.
Nothing is ever committed to /repo.
"""
import json
import os
import subprocess
import sys

VERIF = "/verif"
ENV = dict(os.environ, VERIF_SCRATCH_EVIDENCE="/tmp/verif_scratch_evidence", GOFLAGS="-mod=mod", GOPROXY="off", GOSUMDB="off", GOTOOLCHAIN="local")


def sh(cmd, cwd=None, timeout=7200):
    p = subprocess.run(cmd, shell=True, cwd=cwd, env=ENV, stdout=subprocess.PIPE, stderr=subprocess.STDOUT, text=True, timeout=timeout)
    return p.returncode, p.stdout


def main():
    args = sys.argv[1:]
    tier = "quick"
    if args[:1] == ["--tier"]:
        tier = args[1]
        args = args[2:]
    names = sorted(os.listdir(os.path.join(VERIF, "seeded")))
    if args:
        names = [n for n in names if any(n.startswith(a) for a in args)]
    for n in names:
        d = os.path.join(VERIF, "seeded", n)
        mp = os.path.join(d, "meta.json")
        if not os.path.exists(mp):
            continue
        meta = json.load(open(mp))
        checks = sorted(meta.get("checks_run_against_it", {}))
        rc, o = sh("git -C /repo status --short")
        if o.strip():
            print("REFUSING: /repo has local changes")
            sys.exit(2)
        rc, o = sh("git -C /repo apply %s" % os.path.join(d, "patch.diff"))
        if rc != 0:
            print("%s: patch does not apply: %s" % (n, o[:200]))
            continue
        results = {}
        try:
            for c in checks:
                rc, o = sh("bin/check %s --tier %s" % (c, tier), VERIF)
                lines = [l for l in o.splitlines() if l.startswith(("VIOLATION", "KNOWN-FINDING", "INCONCLUSIVE", "MODEL-DRIFT", "  clause"))]
                results[c] = {"exit": rc, "output": lines[:8]}
                print("%s %s -> exit %d %s" % (n, c, rc, (lines[1].strip() if len(lines) > 1 else (lines[0] if lines else ""))[:140]), flush=True)
        finally:
            sh("git -C /repo checkout -- .")
            sh("rm -f /verif/replays/*.json")
        meta["checks_run_against_it"] = results
        if meta.get("breaks"):
            meta["caught_by"] = sorted(c for c, r in results.items() if r["exit"] == 1)
        else:
            meta["alarms"] = sorted(c for c, r in results.items() if r["exit"] == 1)
        meta["tier_of_last_run"] = tier
        json.dump(meta, open(mp, "w"), indent=1)


if __name__ == "__main__":
    main()

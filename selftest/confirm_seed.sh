#!/bin/bash
# usage: confirm_seed.sh <worktree> <patch> <demo_test.go> <demo dir inside worktree> <go test -run pattern>
# confirms in the scratch worktree: patch applies, builds, 5 baseline packages pass, demo FAILS with it and PASSES without
export GOFLAGS=-mod=mod GOPROXY=off GOSUMDB=off GOTOOLCHAIN=local
wt=$1; patch=$2; demo=$3; ddir=$4; pat=$5
cd $wt || exit 2
git checkout -q -- . ; 
mkdir -p $ddir; cp $demo $ddir/zz_seed_demo_test.go
res_orig=$(go test -vet=off -count=1 -run "$pat" ./$ddir/ 2>&1 | tail -1)
git apply $patch || { echo "PATCH DOES NOT APPLY"; rm -f $ddir/zz_seed_demo_test.go; exit 2; }
go build ./... || { echo "DOES NOT BUILD"; git checkout -q -- .; rm -f $ddir/zz_seed_demo_test.go; exit 2; }
res_mut=$(go test -vet=off -count=1 -run "$pat" ./$ddir/ 2>&1 | tail -1)
rm -f $ddir/zz_seed_demo_test.go
base=$(go test -vet=off -count=1 ./combination/ ./pot/ ./regulator/ ./settlement/ ./testcases/ 2>&1 | grep -c "^ok")
git checkout -q -- .
echo "demo on original: $res_orig"
echo "demo with change: $res_mut"
echo "baseline packages ok with change: $base/5"

#!/usr/bin/env python3
"""Evaluate one seeded change (written by an independent sub-agent) against the checks.

usage: eval_seed.py <name> <worktree> <letter> <demo dir> <go test -run pattern> <breaks> <check,check,...>

1. confirms, in the scratch worktree, that the patch applies, builds, passes the five baseline
   packages, and that the demonstration FAILS with it and PASSES without it;
2. stores patch.diff, the demonstration, the agent's notes and meta.json under /verif/seeded/<name>/;
3. applies the patch to /repo, runs the listed checks (quick tier), undoes it straight afterwards.
"""
import json
import os
import shutil
import subprocess
import sys

VERIF = "/verif"
ENV = dict(os.environ, VERIF_SCRATCH_EVIDENCE="/tmp/verif_scratch_evidence", GOFLAGS="-mod=mod", GOPROXY="off", GOSUMDB="off", GOTOOLCHAIN="local")


def sh(cmd, cwd=None, timeout=3600):
    p = subprocess.run(cmd, shell=True, cwd=cwd, env=ENV, stdout=subprocess.PIPE, stderr=subprocess.STDOUT, text=True, timeout=timeout)
    return p.returncode, p.stdout


def main():
    name, wt, letter, ddir, pat, breaks, checks = sys.argv[1:8]
    out = os.path.join(wt, "OUT")
    patch = os.path.join(out, letter + ".patch.diff")
    demo = os.path.join(out, letter + "_demo_test.go")
    notes = os.path.join(out, letter + ".notes.md")
    sh("git checkout -q -- .", wt)
    os.makedirs(os.path.join(wt, ddir), exist_ok=True)
    dst = os.path.join(wt, ddir, "zz_seed_demo_test.go")
    shutil.copy(demo, dst)
    run = "go test -vet=off -count=1 -run '%s' ./%s/" % (pat, ddir)
    rc_orig, o_orig = sh(run, wt)
    rc_apply, o_apply = sh("git apply %s" % patch, wt)
    rc_build, o_build = sh("go build ./...", wt)
    rc_mut, o_mut = sh(run, wt)
    os.remove(dst)
    if ddir not in ("testcases", "settlement", "pot", "regulator", "seat_manager", "combination"):
        shutil.rmtree(os.path.join(wt, ddir), ignore_errors=True)
    rc_base, o_base = sh("go test -vet=off -count=1 ./combination/ ./pot/ ./regulator/ ./settlement/ ./testcases/", wt)
    sh("git checkout -q -- .", wt)
    confirmed = rc_apply == 0 and rc_build == 0 and rc_orig == 0 and rc_mut != 0 and rc_base == 0
    print("%s: applies=%s builds=%s demo_orig_passes=%s demo_mut_fails=%s baseline_passes=%s => confirmed=%s" % (
        name, rc_apply == 0, rc_build == 0, rc_orig == 0, rc_mut != 0, rc_base == 0, confirmed))
    d = os.path.join(VERIF, "seeded", name)
    os.makedirs(d, exist_ok=True)
    shutil.copy(patch, os.path.join(d, "patch.diff"))
    shutil.copy(demo, os.path.join(d, "demo_test.go"))
    if os.path.exists(notes):
        shutil.copy(notes, os.path.join(d, "notes.md"))
    results = {}
    if confirmed:
        # EVAL_REPO=<scratch worktree of /repo>: the change is applied there and the checks are pointed at it (VERIF_REPO), so that
        # several changes can be evaluated side by side; without it the change is applied to /repo itself and undone afterwards
        repo = os.environ.get("EVAL_REPO", "/repo")
        pre = "VERIF_REPO=%s " % repo if repo != "/repo" else ""
        rc, o = sh("git -C %s status --short" % repo)
        if [l for l in o.splitlines() if not l.endswith("OUT/")]:
            print("REFUSING: %s has local changes" % repo); sys.exit(2)
        rc, o = sh("git -C %s apply %s" % (repo, os.path.join(d, "patch.diff")))
        try:
            for c in checks.split(","):
                rc, o = sh(pre + "bin/check %s --tier quick" % c, VERIF)
                lines = [l for l in o.splitlines() if l.startswith(("VIOLATION", "KNOWN-FINDING", "INCONCLUSIVE", "MODEL-DRIFT", "  clause"))]
                results[c] = {"exit": rc, "output": lines[:8]}
                print("  %s -> exit %d %s" % (c, rc, (lines[1].strip() if len(lines) > 1 else (lines[0] if lines else ""))[:160]))
        finally:
            sh("git -C %s checkout -- ." % repo)
            if repo == "/repo":
                sh("rm -f /verif/replays/*.json")
    meta = {"name": name, "breaks": breaks.split(","), "source": "independent sub-agent given only the property text and a scratch worktree",
            "needs": open(notes).read() if os.path.exists(notes) else "",
            "confirmed_in_scratch_worktree": {"patch_applies": rc_apply == 0, "builds": rc_build == 0, "baseline_5_packages_pass": rc_base == 0,
                                              "demo_cmd": run + "  (demo placed at %s/)" % ddir, "demo_passes_on_original": rc_orig == 0,
                                              "demo_fails_with_change": rc_mut != 0},
            "checks_run_against_it": results,
            "caught_by": sorted(c for c, r in results.items() if r["exit"] == 1)}
    json.dump(meta, open(os.path.join(d, "meta.json"), "w"), indent=1)


if __name__ == "__main__":
    main()

module vdrive

go 1.19

require github.com/weedbox/pokerface v0.0.0

require github.com/google/uuid v1.3.0 // indirect

replace github.com/weedbox/pokerface => /repo

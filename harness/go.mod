module vdrive

go 1.19

require github.com/weedbox/pokerface v0.0.0

require (
	github.com/google/uuid v1.3.0 // indirect
	github.com/weedbox/syncsaga v0.0.0-20230821071725-a634f0872340 // indirect
	github.com/weedbox/timebank v0.0.0-20230713013837-bd7a6f808e3e // indirect
)

replace github.com/weedbox/pokerface => /repo

// Package vrec records every hand operation the repository's OWN scenario tests (testcases/*_test.go)
// perform on the real engine. bin/check copies those test files from /repo's current working tree into a
// scratch module, replaces `pokerface.NewPokerFace()` by `vrec.NewPokerFace()` and runs them: the games they
// create are wrapped, and every call of the hand alphabet (DESIGN 2.1) - on the game or on one of its players -
// is written as one raw NDJSON line (operation, seat, amount, error, the JSON encoding of the state before and
// after the call). `vdrive holdem-convert` projects the raw lines into the trace format HoldemTrace.tla reads.
//
// Nothing is guessed: when a test touched the state between two recorded calls (sets the deck or hole cards,
// pays an ante through the plumbing method Pay) the state before the call differs from the state after the
// previous one, and the converter ends that run there (a hand-edited state is not the engine's doing).
package vrec

import (
	"encoding/json"
	"os"
	"runtime"
	"strings"
	"sync"

	pf "github.com/weedbox/pokerface"
)

type rawLine struct {
	Run    int             `json:"run"`
	Test   string          `json:"test"`
	Op     string          `json:"op"`
	Seat   int             `json:"seat"`
	X      int64           `json:"x"`
	Err    string          `json:"err"`
	Before json.RawMessage `json:"before"`
	After  json.RawMessage `json:"after"`
}

var (
	mu   sync.Mutex
	out  *os.File
	runs int
)

func sink() *os.File {
	if out == nil {
		path := os.Getenv("VERIF_RAW_OUT")
		if path == "" {
			path = os.DevNull
		}
		f, err := os.OpenFile(path, os.O_CREATE|os.O_WRONLY|os.O_APPEND, 0o644)
		if err != nil {
			panic(err)
		}
		out = f
	}
	return out
}

// testName: the Test function on the call stack (so that a failing run can be re-run alone)
func testName() string {
	pcs := make([]uintptr, 40)
	n := runtime.Callers(2, pcs)
	fr := runtime.CallersFrames(pcs[:n])
	for {
		f, more := fr.Next()
		if i := strings.LastIndex(f.Function, ".Test"); i >= 0 && !strings.Contains(f.Function[i+1:], ".") {
			return f.Function[i+1:]
		}
		if !more {
			return ""
		}
	}
}

type pokerface struct{ inner pf.PokerFace }

func NewPokerFace() pf.PokerFace { return &pokerface{inner: pf.NewPokerFace()} }

func (p *pokerface) NewGame(opts *pf.GameOptions) pf.Game {
	return wrap(p.inner.NewGame(opts), "new")
}

func (p *pokerface) NewGameFromState(gs *pf.GameState) pf.Game {
	return wrap(p.inner.NewGameFromState(gs), "newFromState")
}

type recGame struct {
	pf.Game
	run  int
	test string
}

func wrap(g pf.Game, op string) pf.Game {
	mu.Lock()
	runs++
	r := &recGame{Game: g, run: runs, test: testName()}
	mu.Unlock()
	s := r.snap()
	r.write(op, -1, 0, nil, s, s)
	return r
}

func (g *recGame) snap() json.RawMessage {
	b, err := json.Marshal(g.Game.GetState())
	if err != nil {
		panic(err)
	}
	return b
}

func (g *recGame) write(op string, seat int, x int64, err error, before, after json.RawMessage) {
	l := rawLine{Run: g.run, Test: g.test, Op: op, Seat: seat, X: x, Before: before, After: after}
	if err != nil {
		l.Err = err.Error()
	}
	b, e := json.Marshal(l)
	if e != nil {
		panic(e)
	}
	mu.Lock()
	defer mu.Unlock()
	f := sink()
	f.Write(b)
	f.Write([]byte("\n"))
}

func (g *recGame) rec(op string, seat int, x int64, call func() error) error {
	before := g.snap()
	err := call()
	g.write(op, seat, x, err, before, g.snap())
	return err
}

func (g *recGame) cur() int { return g.Game.GetState().Status.CurrentPlayer }

// table operations
func (g *recGame) Start() error       { return g.rec("Start", -1, 0, g.Game.Start) }
func (g *recGame) Next() error        { return g.rec("Next", -1, 0, g.Game.Next) }
func (g *recGame) ReadyForAll() error { return g.rec("ReadyForAll", -1, 0, g.Game.ReadyForAll) }
func (g *recGame) PayAnte() error     { return g.rec("PayAnte", -1, 0, g.Game.PayAnte) }
func (g *recGame) PayBlinds() error   { return g.rec("PayBlinds", -1, 0, g.Game.PayBlinds) }

// actions through the game: they go to the player to act
func (g *recGame) Pass() error  { return g.rec("Pass", g.cur(), 0, g.Game.Pass) }
func (g *recGame) Fold() error  { return g.rec("Fold", g.cur(), 0, g.Game.Fold) }
func (g *recGame) Check() error { return g.rec("Check", g.cur(), 0, g.Game.Check) }
func (g *recGame) Call() error  { return g.rec("Call", g.cur(), 0, g.Game.Call) }
func (g *recGame) Allin() error { return g.rec("Allin", g.cur(), 0, g.Game.Allin) }
func (g *recGame) Bet(x int64) error {
	return g.rec("Bet", g.cur(), x, func() error { return g.Game.Bet(x) })
}
func (g *recGame) Raise(x int64) error {
	return g.rec("Raise", g.cur(), x, func() error { return g.Game.Raise(x) })
}

// players handed to the test are wrapped as well (tests act through g.GetCurrentPlayer().Allin() too)
type recPlayer struct {
	pf.Player
	g *recGame
}

func (g *recGame) wrapPlayer(p pf.Player) pf.Player {
	if p == nil {
		return nil
	}
	return &recPlayer{Player: p, g: g}
}

func (g *recGame) Player(idx int) pf.Player    { return g.wrapPlayer(g.Game.Player(idx)) }
func (g *recGame) Dealer() pf.Player           { return g.wrapPlayer(g.Game.Dealer()) }
func (g *recGame) SmallBlind() pf.Player       { return g.wrapPlayer(g.Game.SmallBlind()) }
func (g *recGame) BigBlind() pf.Player         { return g.wrapPlayer(g.Game.BigBlind()) }
func (g *recGame) GetCurrentPlayer() pf.Player { return g.wrapPlayer(g.Game.GetCurrentPlayer()) }
func (g *recGame) GetPlayers() []pf.Player {
	ps := g.Game.GetPlayers()
	r := make([]pf.Player, len(ps))
	for i, p := range ps {
		r[i] = g.wrapPlayer(p)
	}
	return r
}

func unwrap(p pf.Player) pf.Player {
	if rp, ok := p.(*recPlayer); ok {
		return rp.Player
	}
	return p
}

// plumbing methods that take a player: hand the engine its own object
func (g *recGame) BecomeRaiser(p pf.Player) error         { return g.Game.BecomeRaiser(unwrap(p)) }
func (g *recGame) SetCurrentPlayer(p pf.Player) error     { return g.Game.SetCurrentPlayer(unwrap(p)) }
func (g *recGame) GetAllowedActions(p pf.Player) []string { return g.Game.GetAllowedActions(unwrap(p)) }
func (g *recGame) GetAvailableActions(p pf.Player) []string {
	return g.Game.GetAvailableActions(unwrap(p))
}

func (p *recPlayer) Pass() error  { return p.g.rec("Pass", p.SeatIndex(), 0, p.Player.Pass) }
func (p *recPlayer) Fold() error  { return p.g.rec("Fold", p.SeatIndex(), 0, p.Player.Fold) }
func (p *recPlayer) Check() error { return p.g.rec("Check", p.SeatIndex(), 0, p.Player.Check) }
func (p *recPlayer) Call() error  { return p.g.rec("Call", p.SeatIndex(), 0, p.Player.Call) }
func (p *recPlayer) Allin() error { return p.g.rec("Allin", p.SeatIndex(), 0, p.Player.Allin) }
func (p *recPlayer) Bet(x int64) error {
	return p.g.rec("Bet", p.SeatIndex(), x, func() error { return p.Player.Bet(x) })
}
func (p *recPlayer) Raise(x int64) error {
	return p.g.rec("Raise", p.SeatIndex(), x, func() error { return p.Player.Raise(x) })
}

package main

// holdem-resume (C07): three instances in lock-step on the same deck and script
//   M  one in-memory game
//   J  rebuilt from its own JSON state (json.Marshal(GetState()) -> NewGameFromState) before every
//      call ("always") or at the script's Rehydrate cut points ("cuts")
//   B  table.NativeBackend: a new game from the state for every single call
// plus M2, a second in-memory run (determinism).  Every line records the projections of all of
// them after the call, the errors, whether the backend left its input untouched, and whether the
// complete JSON states (timestamps and game id removed) are equal.
//
// holdem-views (C15): at every recorded state the state prepared for every player seat and for
// an observer (AsPlayer / AsObserver on a JSON clone), projected, plus a generic scan of the
// view's JSON for card symbols with their paths.

import (
	"encoding/json"
	"flag"
	"fmt"
	"math/rand"
	"reflect"
	"sort"
	"strings"

	pf "github.com/weedbox/pokerface"
	"github.com/weedbox/pokerface/table"
)

func rawNorm(gs *pf.GameState) map[string]interface{} {
	b, _ := json.Marshal(gs)
	var m map[string]interface{}
	json.Unmarshal(b, &m)
	delete(m, "updated_at")
	delete(m, "created_at")
	delete(m, "game_id")
	return m
}

func backendCall(nb *table.NativeBackend, gs *pf.GameState, op HOp) (*pf.GameState, error) {
	switch op.Op {
	case "ReadyForAll":
		return nb.ReadyForAll(gs)
	case "PayAnte":
		return nb.PayAnte(gs)
	case "PayBlinds":
		return nb.PayBlinds(gs)
	case "Next":
		return nb.Next(gs)
	case "Pass":
		return nb.Pass(gs)
	case "Fold":
		return nb.Fold(gs)
	case "Check":
		return nb.Check(gs)
	case "Call":
		return nb.Call(gs)
	case "Allin":
		return nb.Allin(gs)
	case "Bet":
		return nb.Bet(gs, op.X)
	case "Raise":
		return nb.Raise(gs, op.X)
	}
	return nil, fmt.Errorf("harness: unknown op")
}

func resumeRun(o *potsOut, s HScript, mode string, r *rand.Rand) int {
	deck := s.Cfg.Deck
	if deck == nil {
		deck = shuffled(r, s.Cfg.options().Deck)
	}
	mk := func() pf.Game {
		g := pf.NewPokerFace().NewGame(s.Cfg.options())
		return g
	}
	gM, M2, J := mk(), mk(), mk()
	nb := table.NewNativeBackend()
	var B *pf.GameState
	started := false
	lines := 0
	emit := func(kind string, op HOp, eM, eM2, eJ, eB error, hasB, inputSame bool) {
		ln := M{"kind": kind, "reset": kind == "reset", "run": s.Run, "op": op.Op, "seat": op.Seat, "x": clip(op.X),
			"errM": errStr(eM), "errM2": errStr(eM2), "errJ": errStr(eJ), "errB": errStr(eB), "hasB": hasB, "inputSame": inputSame,
			"M": projHoldem(gM.GetState()), "M2": projHoldem(M2.GetState()), "J": projHoldem(J.GetState()),
			"deckM": cards(gM.GetState().Meta.Deck), "deckJ": cards(J.GetState().Meta.Deck), "mode": mode}
		ln["rawEqMJ"] = reflect.DeepEqual(rawNorm(gM.GetState()), rawNorm(J.GetState()))
		ln["rawEqMM2"] = reflect.DeepEqual(rawNorm(gM.GetState()), rawNorm(M2.GetState()))
		if hasB && B != nil {
			ln["B"] = projHoldem(B)
			ln["deckB"] = cards(B.Meta.Deck)
			ln["rawEqMB"] = reflect.DeepEqual(rawNorm(gM.GetState()), rawNorm(B))
		} else {
			ln["B"] = projHoldem(gM.GetState())
			ln["deckB"] = cards(gM.GetState().Meta.Deck)
			ln["rawEqMB"] = true
			ln["hasB"] = false
		}
		o.write(ln)
		lines++
	}
	emit("reset", HOp{"new", -1, 0}, nil, nil, nil, nil, false, true)
	for _, op := range s.Ops {
		if strings.HasPrefix(op.Op, "?") {
			continue // a side branch of the recorded run (probe): not part of the hand
		}
		if op.Op == "Rehydrate" {
			if mode == "cuts" {
				J = pf.NewPokerFace().NewGameFromState(cloneGS(J.GetState()))
			}
			continue
		}
		if op.Op == "Start" {
			if started {
				continue
			}
			started = true
			eM := gM.Start()
			eM2 := M2.Start()
			eJ := J.Start()
			var eB error
			B, eB = nb.CreateGame(s.Cfg.options())
			if eM == nil {
				gM.GetState().Meta.Deck = append([]string{}, deck...)
				M2.GetState().Meta.Deck = append([]string{}, deck...)
				J.GetState().Meta.Deck = append([]string{}, deck...)
			}
			if eB == nil && B != nil {
				B.Meta.Deck = append([]string{}, deck...)
			}
			emit("main", op, eM, eM2, eJ, eB, eB == nil, true)
			if eM != nil {
				return lines
			}
			continue
		}
		if !started {
			continue
		}
		eM := callOn(gM, op)
		eM2 := callOn(M2, op)
		if mode == "always" {
			J = pf.NewPokerFace().NewGameFromState(cloneGS(J.GetState()))
		}
		eJ := callOn(J, op)
		// the backend acts for the player to act only
		hasB := B != nil && (op.Seat == -1 || op.Seat == B.Status.CurrentPlayer)
		var eB error
		inputSame := true
		if hasB {
			before := rawNorm(B)
			ub := B.UpdatedAt
			nB, err := backendCall(nb, B, op)
			eB = err
			inputSame = reflect.DeepEqual(before, rawNorm(B)) && ub == B.UpdatedAt
			if err == nil && nB != nil {
				B = nB
			}
		}
		emit("main", op, eM, eM2, eJ, eB, hasB, inputSame)
	}
	return lines
}

func cmdHoldemResume(args []string) {
	fs := flag.NewFlagSet("holdem-resume", flag.ExitOnError)
	in := fs.String("scripts", "", "")
	out := fs.String("o", "resume.ndjson", "")
	mode := fs.String("mode", "always", "always | cuts | both")
	seed := fs.Int64("seed", 1, "")
	fs.Parse(args)
	r := rand.New(rand.NewSource(*seed))
	tw := newTraceWriter(*out)
	o := &potsOut{w: tw}
	n := 0
	for _, s := range readScripts(*in) {
		if *mode == "both" {
			resumeRun(o, s, "always", r)
			resumeRun(o, s, "cuts", r)
			n += 2
		} else {
			resumeRun(o, s, *mode, r)
			n++
		}
	}
	tw.close()
	b, _ := json.Marshal(M{"runs": n, "lines": o.lines})
	fmt.Println(string(b))
}

// ---- views (C15) -------------------------------------------------------------------------

var cardRe = func() map[string]bool {
	m := map[string]bool{}
	for _, s := range "SHDC" {
		for _, r := range "23456789TJQKA" {
			m[string(s)+string(r)] = true
		}
	}
	return m
}()

// scanCards walks arbitrary JSON and returns every card symbol found with its path
func scanCards(v interface{}, path string, out *[]M) {
	switch t := v.(type) {
	case map[string]interface{}:
		keys := []string{}
		for k := range t {
			keys = append(keys, k)
		}
		sort.Strings(keys)
		for _, k := range keys {
			scanCards(t[k], path+"/"+k, out)
		}
	case []interface{}:
		for i, x := range t {
			scanCards(x, fmt.Sprintf("%s/%d", path, i), out)
		}
	case string:
		if cardRe[t] {
			*out = append(*out, M{"card": card(t), "path": path})
		} else if len(t) > 2 {
			// a card symbol hidden inside a longer string
			for c := range cardRe {
				if strings.Contains(t, c) && len(t) < 40 && (strings.HasPrefix(path, "/players") || strings.HasPrefix(path, "/status") || strings.HasPrefix(path, "/meta")) {
					*out = append(*out, M{"card": card(c), "path": path + "#sub"})
				}
			}
		}
	}
}

func viewOf(gs *pf.GameState, who int) (M, []M, bool) {
	c := cloneGS(gs)
	if who >= 0 {
		c.AsPlayer(who)
	} else {
		c.AsObserver()
	}
	b, _ := json.Marshal(c)
	var any interface{}
	json.Unmarshal(b, &any)
	found := []M{}
	scanCards(any, "", &found)
	// the engine's own state must not be touched by preparing a view of a clone
	return projHoldem(c), found, true
}

func cmdHoldemViews(args []string) {
	fs := flag.NewFlagSet("holdem-views", flag.ExitOnError)
	in := fs.String("scripts", "", "")
	out := fs.String("o", "views.ndjson", "")
	every := fs.Int("every", 1, "record the views at every k-th state")
	fs.Parse(args)
	tw := newTraceWriter(*out)
	o := &potsOut{w: tw}
	runs := 0
	for _, s := range readScripts(*in) {
		runs++
		g := pf.NewPokerFace().NewGame(s.Cfg.options())
		step := 0
		rec := func(op HOp, err error) {
			step++
			if step%*every != 0 && g.GetState().Status.CurrentEvent != "GameClosed" {
				return
			}
			gs := g.GetState()
			views := []M{}
			// (-1: the observer; 0..n-1: the players; n: AsPlayer for a seat that does not exist - nobody's cards may show)
			for who := -1; who <= len(gs.Players); who++ {
				p, found, _ := viewOf(gs, who)
				c := cloneGS(gs)
				if who >= 0 {
					c.AsPlayer(who)
				} else {
					c.AsObserver()
				}
				views = append(views, M{"who": who, "state": p, "deck": cards(c.Meta.Deck), "found": found})
			}
			o.write(M{"kind": "views", "run": s.Run, "op": op.Op, "err": errStr(err), "state": projHoldem(gs), "deck": cards(gs.Meta.Deck), "views": views})
		}
		for _, op := range s.Ops {
			if op.Op == "Rehydrate" || strings.HasPrefix(op.Op, "?") {
				continue
			}
			var err error
			if op.Op == "Start" {
				err = g.Start()
				if err == nil && s.Cfg.Deck != nil {
					g.GetState().Meta.Deck = append([]string{}, s.Cfg.Deck...)
				}
			} else {
				err = callOn(g, op)
			}
			rec(op, err)
		}
	}
	tw.close()
	b, _ := json.Marshal(M{"runs": runs, "lines": o.lines})
	fmt.Println(string(b))
}

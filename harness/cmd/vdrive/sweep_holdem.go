package main

// holdem-sweep : forced-bet sweep (C13, C01, C04): seat counts, button positions, live/dead small blind, blind/ante
//                structures and bankroll vectors over the boundary set of each structure (every stack
//                below, at and just above each forced amount), driven to the first betting decision.
// holdem-start : Start() on configurations with each defect singly and in pairs (C06).

import (
	"encoding/json"
	"flag"
	"fmt"
	"math/rand"
	"strings"

	pf "github.com/weedbox/pokerface"
)

func boundaryStacks(st [4]int64) []int64 {
	a, d, s, b := st[0], st[1], st[2], st[3]
	cand := []int64{1, 2, a - 1, a, a + 1, s - 1, s, s + 1, b - 1, b, b + 1, d - 1, d, d + 1, a + s, a + b - 1, a + b, a + b + 1, a + d, 3*b + a + 1}
	seen := map[int64]bool{}
	var r []int64
	for _, x := range cand {
		if x >= 1 && !seen[x] {
			seen[x] = true
			r = append(r, x)
		}
	}
	return r
}

var sweepStructs = [][4]int64{{0, 0, 1, 2}, {1, 0, 1, 2}, {3, 0, 1, 2}, {1, 2, 0, 0}, {0, 3, 1, 2}, {2, 0, 5, 10}, {0, 0, 2, 2}, {1, 0, 0, 0}, {2, 4, 2, 4}, {0, 10, 5, 10}}

func sweepOne(tw *traceWriter, run int, cfg HCfg, r *rand.Rand, finish bool) *hand {
	h := newHand(tw, run, cfg)
	h.do(HOp{"Start", -1, 0})
	for !h.closed() && h.steps < 400 {
		s := h.g.GetState()
		switch s.Status.CurrentEvent {
		case "ReadyRequested":
			h.do(HOp{"ReadyForAll", -1, 0})
		case "AnteRequested":
			h.do(HOp{"PayAnte", -1, 0})
		case "BlindsRequested":
			h.do(HOp{"PayBlinds", -1, 0})
		case "RoundClosed":
			h.do(HOp{"Next", -1, 0})
		case "RoundStarted":
			if !finish {
				return h
			}
			c := s.Status.CurrentPlayer
			if c < 0 || c >= len(s.Players) || len(s.Players[c].AllowedActions) == 0 {
				return h
			}
			a := chooseAction(r, styles[2], s.Players[c].AllowedActions, 99)
			h.do(actionOp(a, c, s, r, false))
		default:
			return h
		}
	}
	return h
}

func cmdHoldemSweep(args []string) {
	fs := flag.NewFlagSet("holdem-sweep", flag.ExitOnError)
	out := fs.String("o", "sweep.ndjson", "")
	scripts := fs.String("scripts", "", "")
	mode := fs.String("mode", "small", "small | full")
	seed := fs.Int64("seed", 1, "")
	fs.Parse(args)
	r := rand.New(rand.NewSource(*seed))
	tw := newTraceWriter(*out)
	var hs []*hand
	run := 6000000
	deck := pf.NewStandardDeckCards()
	budget := map[int]int{2: 1 << 30, 3: 500, 4: 250, 5: 60, 6: 40}
	if *mode == "full" {
		budget = map[int]int{2: 1 << 30, 3: 1 << 30, 4: 6000, 5: 1500, 6: 800, 9: 200}
	}
	for _, st := range sweepStructs {
		bs := boundaryStacks(st)
		for n := 2; n <= 9; n++ {
			bud, okb := budget[n]
			if !okb {
				continue
			}
			total := 1
			for i := 0; i < n; i++ {
				total *= len(bs)
				if total > 1<<24 {
					break
				}
			}
			perStruct := bud / len(sweepStructs) * 3
			if perStruct < 4 {
				perStruct = 4
			}
			enumerate := total*n*2 <= perStruct || bud == 1<<30
			emitCfg := func(v []int64, d int, dead bool) {
				c := HCfg{Ante: st[0], Dealer: st[1], SB: st[2], BB: st[3], Limit: "no", HoleN: 2, Ranking: "standard", DeckKind: "std",
					Bank: append([]int64{}, v...), Pos: rolePositions(n, d, dead), Deck: deck}
				hs = append(hs, sweepOne(tw, run, c, r, r.Intn(6) == 0))
				run++
			}
			if enumerate {
				v := make([]int64, n)
				var rec func(k int)
				rec = func(k int) {
					if k == n {
						for d := 0; d < n; d++ {
							emitCfg(v, d, false)
							if n > 2 {
								emitCfg(v, d, true)
							}
						}
						return
					}
					for _, b := range bs {
						v[k] = b
						rec(k + 1)
					}
				}
				rec(0)
			} else {
				for k := 0; k < perStruct; k++ {
					v := make([]int64, n)
					for i := range v {
						v[i] = bs[r.Intn(len(bs))]
					}
					emitCfg(v, r.Intn(n), n > 2 && r.Intn(3) == 0)
				}
			}
		}
	}
	tw.close()
	if *scripts != "" {
		writeScripts(*scripts, hs)
	}
	b, _ := json.Marshal(M{"runs": len(hs), "lines": tw.lines})
	fmt.Println(string(b))
}

func cmdHoldemStart(args []string) {
	fs := flag.NewFlagSet("holdem-start", flag.ExitOnError)
	out := fs.String("o", "start.ndjson", "")
	scripts := fs.String("scripts", "", "")
	seed := fs.Int64("seed", 1, "")
	fs.Parse(args)
	r := rand.New(rand.NewSource(*seed))
	tw := newTraceWriter(*out)
	var hs []*hand
	run := 7000000
	type defect func(c *HCfg)
	defects := map[string]defect{
		"onePlayer": func(c *HCfg) { c.Bank = c.Bank[:1]; c.Pos = [][]string{{"dealer"}} },
		"zeroBank":  func(c *HCfg) { c.Bank[len(c.Bank)-1] = 0 },
		"negBank":   func(c *HCfg) { c.Bank[0] = -5 },
		"noDealer": func(c *HCfg) {
			for i := range c.Pos {
				c.Pos[i] = remove(c.Pos[i], "dealer")
			}
		},
		"noDeck": func(c *HCfg) { c.DeckKind = "none"; c.Deck = nil },
	}
	names := []string{"onePlayer", "zeroBank", "negBank", "noDealer", "noDeck"}
	mk := func() HCfg {
		c := genCfg(r, false)
		return c
	}
	play := func(c HCfg) {
		h := newHand(tw, run, c)
		run++
		h.do(HOp{"Start", -1, 0})
		if h.g.GetState().Status.CurrentEvent == "" {
			// a hand that did not start accepts nothing
			h.do(HOp{"ReadyForAll", -1, 0})
			h.do(HOp{"Next", -1, 0})
		} else {
			h.do(HOp{"ReadyForAll", -1, 0})
		}
		hs = append(hs, h)
	}
	for rep := 0; rep < 6; rep++ {
		play(mk())
		for _, a := range names {
			c := mk()
			defects[a](&c)
			play(c)
			for _, b := range names {
				if a >= b || (a == "onePlayer" && b == "zeroBank") {
					continue
				}
				c := mk()
				defects[a](&c)
				defects[b](&c)
				play(c)
			}
		}
	}
	tw.close()
	if *scripts != "" {
		writeScripts(*scripts, hs)
	}
	b, _ := json.Marshal(M{"runs": len(hs), "lines": tw.lines})
	fmt.Println(string(b))
}

func remove(xs []string, x string) []string {
	r := []string{}
	for _, y := range xs {
		if y != x {
			r = append(r, y)
		}
	}
	return r
}

// holdem-deal (C10): real hands on CONSTRUCTED decks - boards and hole cards drawn from pools that
// hit the category boundaries (monotone / paired / connected / wheel boards; holes sharing suits and
// ranks with the board), both decks and ranking tables, 2 hole cards and 4-with-2-required -
// played passively to the river so that every street's published evaluation is recorded.
func cmdHoldemDeal(args []string) {
	fs := flag.NewFlagSet("holdem-deal", flag.ExitOnError)
	out := fs.String("o", "deal.ndjson", "")
	scripts := fs.String("scripts", "", "")
	runs := fs.Int("runs", 100, "")
	seed := fs.Int64("seed", 1, "")
	fs.Parse(args)
	r := rand.New(rand.NewSource(*seed))
	tw := newTraceWriter(*out)
	var hs []*hand
	for k := 0; k < *runs; k++ {
		short := r.Intn(3) == 0
		base := pf.NewStandardDeckCards()
		if short {
			base = pf.NewShortDeckCards()
		}
		holeN, req := 2, 0
		switch k := r.Intn(12); {
		case k < 4:
			holeN, req = 4, 2
		case k == 4:
			holeN, req = 2, 2 // every hole card is required
		case k == 5:
			holeN, req = 3, 2
		case k == 6:
			holeN, req = 4, 0
		}
		n := 2 + r.Intn(5)
		for n*holeN+8 > len(base) {
			n--
		}
		// pools
		suit := "SHDC"[r.Intn(4)]
		pick := func(pred func(c string) bool, k int, used map[string]bool) []string {
			var pool []string
			for _, c := range base {
				if !used[c] && pred(c) {
					pool = append(pool, c)
				}
			}
			r.Shuffle(len(pool), func(i, j int) { pool[i], pool[j] = pool[j], pool[i] })
			if len(pool) > k {
				pool = pool[:k]
			}
			for _, c := range pool {
				used[c] = true
			}
			return pool
		}
		any := func(c string) bool { return true }
		used := map[string]bool{}
		var board []string
		lo := rankOf[base[0][1]] // lowest rank of the deck
		switch r.Intn(8) {
		case 5: // three of a suit and a pair: one player can hold a flush AND a full house (they rank differently in the two tables)
			board = pick(func(c string) bool { return c[0] == suit }, 3, used)
			if len(board) > 0 {
				pr := board[r.Intn(len(board))][1]
				board = append(board, pick(func(c string) bool { return c[1] == pr }, 1, used)...)
			}
		case 0: // monotone board
			board = pick(func(c string) bool { return c[0] == suit }, 5, used)
		case 1: // paired / trips / quads on board
			ra, rb := base[r.Intn(len(base))][1], base[r.Intn(len(base))][1]
			board = pick(func(c string) bool { return c[1] == ra || c[1] == rb }, 3+r.Intn(3), used)
		case 2: // connected
			start := lo + r.Intn(15-lo-4)
			board = pick(func(c string) bool { return rankOf[c[1]] >= start && rankOf[c[1]] <= start+5 }, 5, used)
		case 3: // wheel-ish: A + the lowest ranks
			board = pick(func(c string) bool { return rankOf[c[1]] == 14 || rankOf[c[1]] <= lo+3 }, 5, used)
		case 4: // four to a flush and connected
			board = pick(func(c string) bool { return c[0] == suit && rankOf[c[1]] >= 9 }, 4, used)
		default:
		}
		board = append(board, pick(any, 5-len(board), used)...)
		r.Shuffle(len(board), func(i, j int) { board[i], board[j] = board[j], board[i] })
		holes := make([][]string, n)
		for i := 0; i < n; i++ {
			var h []string
			switch r.Intn(5) {
			case 4: // half suited with the board, half ranks of the board (flush and full house in one hand)
				h = pick(func(c string) bool { return c[0] == suit }, holeN/2, used)
				h = append(h, pick(func(c string) bool {
					for _, b := range board {
						if b[1] == c[1] {
							return true
						}
					}
					return false
				}, holeN-len(h), used)...)
			case 0: // suited with the board's dominant suit
				h = pick(func(c string) bool { return c[0] == suit }, holeN, used)
			case 1: // ranks of the board (sets, full houses, quads)
				h = pick(func(c string) bool {
					for _, b := range board {
						if b[1] == c[1] {
							return true
						}
					}
					return false
				}, holeN, used)
			case 2: // low cards and aces
				h = pick(func(c string) bool { return rankOf[c[1]] == 14 || rankOf[c[1]] <= lo+3 }, holeN, used)
			}
			h = append(h, pick(any, holeN-len(h), used)...)
			holes[i] = h
		}
		burn := pick(any, 3, used)
		var deck []string
		for i := 0; i < n; i++ {
			deck = append(deck, holes[i]...)
		}
		deck = append(deck, burn[0], board[0], board[1], board[2], burn[1], board[3], burn[2], board[4])
		deck = append(deck, pick(any, len(base), used)...)
		c := HCfg{Ante: 0, Dealer: 0, SB: 1, BB: 2, Limit: "no", HoleN: holeN, ReqHole: req, Ranking: "standard", DeckKind: "std",
			Pos: rolePositions(n, r.Intn(n), false), Deck: deck}
		if short {
			c.Ranking, c.DeckKind = "short", "short"
		}
		if r.Intn(6) == 0 { // a mismatched table is legal too: standard table on the short deck
			c.Ranking = "standard"
		}
		for i := 0; i < n; i++ {
			c.Bank = append(c.Bank, 1000)
		}
		hs = append(hs, sweepOne(tw, 8000000+k, c, r, true))
	}
	tw.close()
	if *scripts != "" {
		writeScripts(*scripts, hs)
	}
	b, _ := json.Marshal(M{"runs": len(hs), "lines": tw.lines})
	fmt.Println(string(b))
}

// holdem-dealall (C10): EVERY seven-card situation of a reduced deck through real hands. For every five-card
// board of the deck (cards named by -ranks x -suits) every pair of the remaining cards is some player's hole
// cards in some hand: the pairs are packed greedily into hands of as many players as the remaining cards allow
// (three cards are needed for the burns), each hand is played passively to the river on the constructed deck,
// so that the flop, turn and river evaluation of every (hole cards, board) combination of the deck is published
// by the real engine and recorded. -stride k -offset j: every k-th board only (quick tier).
func cmdHoldemDealAll(args []string) {
	fs := flag.NewFlagSet("holdem-dealall", flag.ExitOnError)
	out := fs.String("o", "dealall.ndjson", "")
	scripts := fs.String("scripts", "", "")
	ranks := fs.String("ranks", "A234567", "")
	suits := fs.String("suits", "SH", "")
	req := fs.Int("req", 0, "required hole cards (0: any five of the seven)")
	table := fs.String("table", "standard", "standard | short")
	stride := fs.Int("stride", 1, "")
	offset := fs.Int("offset", 0, "")
	seed := fs.Int64("seed", 1, "")
	fs.Parse(args)
	r := rand.New(rand.NewSource(*seed))
	var deck []string
	for _, s := range *suits {
		for _, k := range *ranks {
			deck = append(deck, string(s)+string(k))
		}
	}
	n := len(deck)
	players := (n - 5 - 3) / 2
	if players < 2 {
		fatal("deck too small: %d cards", n)
	}
	if players > 9 {
		players = 9
	}
	tw := newTraceWriter(*out)
	var hs []*hand
	boards, situations, run := 0, 0, 9000000
	idx := make([]int, 5)
	var rec func(start, k int)
	playBoard := func(b []int) {
		inBoard := map[int]bool{}
		for _, x := range b {
			inBoard[x] = true
		}
		var rest []int
		for i := 0; i < n; i++ {
			if !inBoard[i] {
				rest = append(rest, i)
			}
		}
		type pair struct{ a, b int }
		var todo []pair
		for i := 0; i < len(rest); i++ {
			for j := i + 1; j < len(rest); j++ {
				todo = append(todo, pair{rest[i], rest[j]})
			}
		}
		covered := map[pair]bool{}
		for len(covered) < len(todo) {
			used := map[int]bool{}
			var hand []pair
			for _, p := range todo { // uncovered pairs first
				if len(hand) < players && !covered[p] && !used[p.a] && !used[p.b] {
					hand = append(hand, p)
					used[p.a], used[p.b] = true, true
				}
			}
			for _, p := range todo { // a hand needs two players: fill up with pairs seen before
				if len(hand) < 2 && !used[p.a] && !used[p.b] {
					hand = append(hand, p)
					used[p.a], used[p.b] = true, true
				}
			}
			for _, p := range hand {
				if !covered[p] {
					covered[p] = true
					situations++
				}
			}
			var free []int
			for _, x := range rest {
				if !used[x] {
					free = append(free, x)
				}
			}
			// the order in which the board comes (flop / turn / river) varies from hand to hand
			bo := append([]int{}, b...)
			r.Shuffle(len(bo), func(i, j int) { bo[i], bo[j] = bo[j], bo[i] })
			var d []string
			for _, p := range hand {
				d = append(d, deck[p.a], deck[p.b])
			}
			d = append(d, deck[free[0]], deck[bo[0]], deck[bo[1]], deck[bo[2]], deck[free[1]], deck[bo[3]], deck[free[2]], deck[bo[4]])
			for _, x := range free[3:] {
				d = append(d, deck[x])
			}
			c := HCfg{Ante: 0, Dealer: 0, SB: 1, BB: 2, Limit: "no", HoleN: 2, ReqHole: *req, Ranking: *table, DeckKind: "std",
				Pos: rolePositions(len(hand), r.Intn(len(hand)), false), Deck: d}
			for range hand {
				c.Bank = append(c.Bank, 1000)
			}
			run++
			hs = append(hs, playToRiver(tw, run, c))
		}
	}
	count := 0
	rec = func(start, k int) {
		if k == 5 {
			if count%*stride == *offset%*stride {
				boards++
				playBoard(append([]int{}, idx...))
			}
			count++
			return
		}
		for i := start; i < n; i++ {
			idx[k] = i
			rec(i+1, k+1)
		}
	}
	rec(0, 0)
	tw.close()
	if *scripts != "" {
		writeScripts(*scripts, hs)
	}
	b, _ := json.Marshal(M{"runs": len(hs), "lines": tw.lines, "deck_cards": n, "boards": boards, "boards_of_the_deck": count, "situations": situations,
		"players_per_hand": players, "req": *req, "table": *table})
	fmt.Println(string(b))
}

// playToRiver: nobody bets, nobody folds - every hand shows all three streets
func playToRiver(tw *traceWriter, run int, cfg HCfg) *hand {
	h := newHand(tw, run, cfg)
	h.do(HOp{"Start", -1, 0})
	for !h.closed() && h.steps < 400 {
		s := h.g.GetState()
		switch s.Status.CurrentEvent {
		case "ReadyRequested":
			h.do(HOp{"ReadyForAll", -1, 0})
		case "AnteRequested":
			h.do(HOp{"PayAnte", -1, 0})
		case "BlindsRequested":
			h.do(HOp{"PayBlinds", -1, 0})
		case "RoundClosed":
			h.do(HOp{"Next", -1, 0})
		case "RoundStarted":
			c := s.Status.CurrentPlayer
			if c < 0 || c >= len(s.Players) || len(s.Players[c].AllowedActions) == 0 {
				return h
			}
			done := false
			for _, want := range []string{"check", "call", "pass", "allin"} {
				for _, a := range s.Players[c].AllowedActions {
					if a == want && !done {
						h.do(HOp{strings.ToUpper(a[:1]) + a[1:], c, 0})
						done = true
					}
				}
			}
			if !done {
				return h
			}
		default:
			return h
		}
	}
	return h
}

func init() {
	commands["holdem-dealall"] = cmdHoldemDealAll
}

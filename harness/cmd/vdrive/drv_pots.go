package main

// pots-enum: feeds contribution / fold / strength vectors directly to the pot and settlement
// packages (C16, C02), enumerating every vector of a small scope in every insertion order,
// or seeded random vectors of realistic size. One line per call with input and output.

import (
	"encoding/json"
	"flag"
	"fmt"
	"math/rand"
	"sort"

	"github.com/weedbox/pokerface/pot"
	"github.com/weedbox/pokerface/settlement"
)

func potsJSON(ps []*pot.Pot, n int) []M {
	out := []M{}
	for _, p := range ps {
		c := [][]int64{}
		keys := []int{}
		for k := range p.Contributors {
			keys = append(keys, k)
		}
		sort.Ints(keys)
		for _, k := range keys {
			c = append(c, []int64{int64(k), clip(p.Contributors[k])})
		}
		lv := []M{}
		for _, l := range p.Levels {
			cs := append([]int{}, l.Contributors...)
			sort.Ints(cs)
			lv = append(lv, M{"level": clip(l.Level), "wager": clip(l.Wager), "total": clip(l.Total), "contributors": cs})
		}
		out = append(out, M{"level": clip(p.Level), "wager": clip(p.Wager), "total": clip(p.Total), "contrib": c, "levels": lv})
	}
	return out
}

func permutations(n int) [][]int {
	var res [][]int
	a := make([]int, n)
	for i := range a {
		a[i] = i
	}
	var rec func(k int)
	rec = func(k int) {
		if k == n {
			res = append(res, append([]int{}, a...))
			return
		}
		for i := k; i < n; i++ {
			a[k], a[i] = a[i], a[k]
			rec(k + 1)
			a[k], a[i] = a[i], a[k]
		}
	}
	rec(0)
	return res
}

type potsOut struct {
	w     *traceWriter
	lines int
	buf   bool // hold the lines back (reg-explore keeps them only when the transition is new)
	held  []M
}

func (o *potsOut) write(m M) {
	if o.buf {
		o.held = append(o.held, m)
		return
	}
	b, _ := json.Marshal(m)
	o.w.w.Write(b)
	o.w.w.WriteByte('\n')
	o.lines++
}

func buildPots(c []int64, f []bool, order []int) []*pot.Pot {
	ll := pot.NewLevelList()
	for _, i := range order {
		ll.AddContributor(c[i], i, f[i])
	}
	return ll.GetPots()
}

func boolsToInts(f []bool) []int {
	r := make([]int, len(f))
	for i, b := range f {
		if b {
			r[i] = 1
		}
	}
	return r
}

func settleLine(c []int64, f []bool, s []int, order []int) M {
	n := len(c)
	ps := buildPots(c, f, order)
	r := settlement.NewResult()
	for _, p := range ps {
		r.AddPot(p.Total, p.Levels)
	}
	// the players are registered in the REVERSE of the contributors' insertion order (C02 is quantified over vectors "given
	// directly to the pot and settlement packages": nothing says the caller registers seat 0 first - seeded change R5b-A
	// looked a player up by his position in the list); every registration order is met for up to 4 players
	for k := 0; k < n; k++ {
		i := k
		if len(order) == n {
			i = order[n-1-k]
		}
		r.AddPlayer(i, 1000000)
	}
	// (the scores are reported in seat order, as the engine does: the order of these calls decides which of the tied
	// winners gets an odd chip - unspecified by C02 but part of the precise model)
	for i := 0; i < n; i++ {
		if f[i] {
			r.UpdateScore(i, 0)
		} else {
			r.UpdateScore(i, s[i])
		}
	}
	r.Calculate()
	chg := make([]int64, n)
	fin := make([]int64, n)
	for _, p := range r.Players {
		if p.Idx >= 0 && p.Idx < n {
			chg[p.Idx] = clip(p.Changed)
			fin[p.Idx] = clip(p.Final)
		}
	}
	rp := []M{}
	for _, p := range r.Pots {
		ws := []M{}
		for _, w := range p.Winners {
			ws = append(ws, M{"idx": w.Idx, "withdraw": clip(w.Withdraw)})
		}
		rp = append(rp, M{"total": clip(p.Total), "winners": ws})
	}
	return M{"kind": "settle", "n": n, "c": c, "f": boolsToInts(f), "s": s, "order": order, "pots": potsJSON(ps, n), "chg": chg, "final": fin, "rpots": rp}
}

// scaledLines: the same vector multiplied by K = 2^53+1. The property's formulas are linear in the contributions, so
// the only correct outputs are K times the small ones; the line carries the outputs divided by K and `exact` = every
// output was divisible by K (TLC integers are 32 bit, so the division is done here; nothing else is inferred).
// Only the pots are scaled: the settlement is NOT linear (odd chips depend on remainders).
const scaleK = int64(1)<<53 + 1

func scaledLines(o *potsOut, c []int64, f []bool, s []int, ord []int, doPots, doSettle bool) {
	n := len(c)
	big := make([]int64, n)
	for i := range c {
		big[i] = c[i] * scaleK
	}
	exact := true
	div := func(x int64) int64 {
		if x%scaleK != 0 {
			exact = false
		}
		return x / scaleK
	}
	ps := buildPots(big, f, ord)
	pj := []M{}
	for _, p := range ps {
		cs := [][]int64{}
		keys := []int{}
		for k := range p.Contributors {
			keys = append(keys, k)
		}
		sort.Ints(keys)
		for _, k := range keys {
			cs = append(cs, []int64{int64(k), div(p.Contributors[k])})
		}
		lv := []M{}
		for _, l := range p.Levels {
			cc := append([]int{}, l.Contributors...)
			sort.Ints(cc)
			lv = append(lv, M{"level": div(l.Level), "wager": div(l.Wager), "total": div(l.Total), "contributors": cc})
		}
		pj = append(pj, M{"level": div(p.Level), "wager": div(p.Wager), "total": div(p.Total), "contrib": cs, "levels": lv})
	}
	if doPots {
		o.write(M{"kind": "pots", "n": n, "c": c, "f": boolsToInts(f), "order": ord, "pots": pj, "scaled": true, "exact": exact})
	}
	if doSettle {
		r := settlement.NewResult()
		for _, p := range ps {
			r.AddPot(p.Total, p.Levels)
		}
		for i := 0; i < n; i++ {
			r.AddPlayer(i, 0)
			if f[i] {
				r.UpdateScore(i, 0)
			} else {
				r.UpdateScore(i, s[i])
			}
		}
		r.Calculate()
		chg := make([]int64, n)
		for _, p := range r.Players {
			if p.Idx >= 0 && p.Idx < n {
				chg[p.Idx] = div(p.Changed)
			}
		}
		o.write(M{"kind": "settle", "n": n, "c": c, "f": boolsToInts(f), "s": s, "order": ord, "pots": pj, "chg": chg, "final": chg, "rpots": []M{}, "scaled": true, "exact": exact})
	}
}

func cmdPotsEnum(args []string) {
	fs := flag.NewFlagSet("pots-enum", flag.ExitOnError)
	out := fs.String("o", "pots.ndjson", "")
	nset := fs.String("n", "2,3,4", "")
	cmax := fs.Int64("cmax", 3, "contributions 0..cmax")
	smax := fs.Int("smax", 2, "strengths 1..smax")
	allOrdersUpTo := fs.Int("all-orders", 4, "every insertion order for n <= this")
	randomN := fs.Int("random", 0, "additional seeded random vectors (realistic sizes)")
	seed := fs.Int64("seed", 1, "")
	what := fs.String("what", "pots,settle", "")
	scale := fs.Bool("scale", false, "also feed every vector of up to 3 players multiplied by 2^53+1 (chip amounts a float64 cannot hold)")
	ties := fs.Int("ties", 0, "tie family: k tied winners at contribution C <= this, with 1..3 folded partial contributions (0: off)")
	fs.Parse(args)
	r := rand.New(rand.NewSource(*seed))
	o := &potsOut{w: newTraceWriter(*out)}
	doPots := contains(*what, "pots")
	doSettle := contains(*what, "settle")
	inputs := 0
	for _, n64 := range parseInts(*nset) {
		n := int(n64)
		ident := make([]int, n)
		for i := range ident {
			ident[i] = i
		}
		perms := [][]int{ident}
		if n <= *allOrdersUpTo {
			perms = permutations(n)
		}
		c := make([]int64, n)
		f := make([]bool, n)
		var recC func(k int)
		recC = func(k int) {
			if k < n {
				for v := int64(0); v <= *cmax; v++ {
					c[k] = v
					recC(k + 1)
				}
				return
			}
			for fm := 0; fm < 1<<n; fm++ {
				for i := 0; i < n; i++ {
					f[i] = fm>>i&1 == 1
				}
				inputs++
				if doPots {
					orders := perms
					if n > *allOrdersUpTo {
						orders = [][]int{ident, r.Perm(n), r.Perm(n)}
					}
					seen := map[string]bool{}
					for _, ord := range orders {
						// Go map iteration inside the code: repeat, record every distinct output
						for rep := 0; rep < 4; rep++ {
							pj := potsJSON(buildPots(c, f, ord), n)
							b, _ := json.Marshal(pj)
							if seen[string(b)] {
								continue
							}
							seen[string(b)] = true
							o.write(M{"kind": "pots", "n": n, "c": append([]int64{}, c...), "f": boolsToInts(f), "order": ord, "pots": pj})
						}
					}
					if *scale && n <= 3 {
						scaledLines(o, append([]int64{}, c...), append([]bool{}, f...), nil, ident, true, false)
					}
				}
				if doSettle {
					s := make([]int, n)
					var recS func(k int)
					recS = func(k int) {
						if k == n {
							ord := ident
							if n > 1 && r.Intn(3) == 0 {
								ord = r.Perm(n)
							}
							o.write(settleLine(append([]int64{}, c...), append([]bool{}, f...), append([]int{}, s...), ord))
							return
						}
						if f[k] {
							s[k] = 1 // strength of a folded player is irrelevant
							recS(k + 1)
							return
						}
						for v := 1; v <= *smax; v++ {
							s[k] = v
							recS(k + 1)
						}
					}
					recS(0)
				}
			}
		}
		recC(0)
	}
	// the tie family: k tied winners who all put in C, f folded players with partial contributions (their
	// levels are merged into the winners' pot), optionally one more non-folded loser - odd chips across merged levels
	for C := int64(2); C <= int64(*ties); C++ {
		for k := 2; k <= 4; k++ {
			for f := 1; f <= 3; f++ {
				fc := make([]int64, f)
				var rec func(j int)
				rec = func(j int) {
					if j < f {
						for v := int64(1); v < C; v++ {
							fc[j] = v
							rec(j + 1)
						}
						return
					}
					for _, loser := range []bool{false, true} {
						for _, foldedFirst := range []bool{false, true} {
							var c []int64
							var fl []bool
							var st []int
							addW := func() {
								for i := 0; i < k; i++ {
									c, fl, st = append(c, C), append(fl, false), append(st, 2)
								}
								if loser {
									c, fl, st = append(c, C), append(fl, false), append(st, 1)
								}
							}
							addF := func() {
								for i := 0; i < f; i++ {
									c, fl, st = append(c, fc[i]), append(fl, true), append(st, 1)
								}
							}
							if foldedFirst {
								addF()
								addW()
							} else {
								addW()
								addF()
							}
							inputs++
							ord := r.Perm(len(c))
							if doSettle {
								o.write(settleLine(c, fl, st, ord))
							} else if doPots {
								o.write(M{"kind": "pots", "n": len(c), "c": c, "f": boolsToInts(fl), "order": ord, "pots": potsJSON(buildPots(c, fl, ord), len(c))})
							}
						}
					}
				}
				rec(0)
			}
		}
	}
	// seeded random vectors of realistic size: clustered amounts (all-in levels), many ties
	for k := 0; k < *randomN; k++ {
		n := 2 + r.Intn(9)
		levels := []int64{0, 1, 2, 3, 5, 10, 11, 25, 40, 100, 101, 250, 1000, 1003, 5000}
		c := make([]int64, n)
		f := make([]bool, n)
		s := make([]int, n)
		for i := range c {
			if r.Intn(3) == 0 {
				c[i] = r.Int63n(2000)
			} else {
				c[i] = levels[r.Intn(len(levels))]
			}
			f[i] = r.Intn(3) == 0
			s[i] = 1 + r.Intn(3)
		}
		inputs++
		ord := r.Perm(n)
		if doPots {
			o.write(M{"kind": "pots", "n": n, "c": c, "f": boolsToInts(f), "order": ord, "pots": potsJSON(buildPots(c, f, ord), n)})
		}
		if doSettle {
			o.write(settleLine(c, f, s, ord))
		}
	}
	o.w.close()
	b, _ := json.Marshal(M{"inputs": inputs, "lines": o.lines})
	fmt.Println(string(b))
}

func contains(list, x string) bool {
	for _, p := range splitComma(list) {
		if p == x {
			return true
		}
	}
	return false
}

func splitComma(s string) []string {
	var r []string
	cur := ""
	for _, ch := range s {
		if ch == ',' {
			r = append(r, cur)
			cur = ""
		} else {
			cur += string(ch)
		}
	}
	return append(r, cur)
}

// pots-one: replays recorded inputs (lines of a previous pots-enum run) - used to reproduce a finding
func cmdPotsOne(args []string) {
	fs := flag.NewFlagSet("pots-one", flag.ExitOnError)
	in := fs.String("in", "", "NDJSON with lines {kind,c,f,s,order}")
	out := fs.String("o", "pots.ndjson", "")
	fs.Parse(args)
	o := &potsOut{w: newTraceWriter(*out)}
	for _, raw := range readNDJSON(*in) {
		var ln struct {
			Scaled bool    `json:"scaled"`
			Kind   string  `json:"kind"`
			C      []int64 `json:"c"`
			F      []int   `json:"f"`
			S      []int   `json:"s"`
			Order  []int   `json:"order"`
		}
		if err := json.Unmarshal(raw, &ln); err != nil {
			fatal("bad line: %v", err)
		}
		f := make([]bool, len(ln.F))
		for i, b := range ln.F {
			f[i] = b == 1
		}
		if ln.Kind == "pots" && ln.Scaled {
			scaledLines(o, ln.C, f, nil, ln.Order, true, false)
		} else if ln.Kind == "pots" {
			seen := map[string]bool{}
			for rep := 0; rep < 8; rep++ {
				pj := potsJSON(buildPots(ln.C, f, ln.Order), len(ln.C))
				b, _ := json.Marshal(pj)
				if !seen[string(b)] {
					seen[string(b)] = true
					o.write(M{"kind": "pots", "n": len(ln.C), "c": ln.C, "f": ln.F, "order": ln.Order, "pots": pj})
				}
			}
		} else {
			o.write(settleLine(ln.C, f, ln.S, ln.Order))
		}
	}
	o.w.close()
	b, _ := json.Marshal(M{"lines": o.lines})
	fmt.Println(string(b))
}

package main

// Drivers for seat_manager.SeatManager (C08, C17, C18).
//   seat-random  : seeded random histories of Join / SitIn / Reserve / Leave / Next on 2..10 seats
//   seat-explore : the implementation's own reachable graph for a small seat count (every op on every
//                  seat incl. out-of-range ones at every state; states are rebuilt by replaying op paths)
//   seat-replay  : scripts (TLC-generated or recorded)
// Every call runs under recover(): a panic is recorded as res = "PANIC".

import (
	"crypto/sha1"
	"encoding/json"
	"flag"
	"fmt"
	"math/rand"

	sm "github.com/weedbox/pokerface/seat_manager"
)

type SOp struct {
	Op   string `json:"op"`
	Seat int    `json:"seat"`
	P    int    `json:"p"`
	Got  int    `json:"got,omitempty"` // Join(-1): the seat the recorded run got, +1 (0 = not recorded)
}

type SScript struct {
	Run int   `json:"run"`
	Max int   `json:"max"`
	Ops []SOp `json:"ops"`
}

func projSeat(m *sm.SeatManager) M {
	max := m.GetSeatCount()
	seats := []M{}
	for i := 0; i < max; i++ {
		s := m.GetSeat(i)
		if s == nil {
			seats = append(seats, M{"player": -1, "active": false, "reserved": false, "missing": true})
			continue
		}
		p := -1
		if s.Player != nil {
			if v, ok := s.Player.(int); ok {
				p = v
			} else {
				p = 999999
			}
		}
		seats = append(seats, M{"player": p, "active": s.IsActive, "reserved": s.IsReserved})
	}
	id := func(s *sm.Seat) int {
		if s == nil {
			return -1
		}
		return s.ID
	}
	return M{"max": max, "seat": seats, "dealer": id(m.Dealer()), "sb": id(m.SmallBlind()), "bb": id(m.BigBlind())}
}

// applySeat performs op under recover(); returns (got seat for Join, result string)
func applySeat(m *sm.SeatManager, op SOp) (got int, res string) {
	got = -1
	defer func() {
		if r := recover(); r != nil {
			res = "PANIC"
		}
	}()
	var err error
	switch op.Op {
	case "Join":
		got, err = m.Join(op.Seat, op.P)
	case "SitIn":
		err = m.Seat(op.Seat)
	case "Reserve":
		err = m.Reserve(op.Seat)
	case "Leave":
		err = m.Leave(op.Seat)
	case "Next":
		err = m.Next()
	default:
		return -1, "harness: unknown op"
	}
	if err != nil {
		return got, err.Error()
	}
	return got, ""
}

type seatRun struct {
	o      *potsOut
	run    int
	m      *sm.SeatManager
	script SScript
	nextP  int
}

func newSeatRun(o *potsOut, run, max int) *seatRun {
	r := &seatRun{o: o, run: run, m: sm.NewSeatManager(max), script: SScript{Run: run, Max: max}, nextP: 1}
	o.write(M{"kind": "reset", "reset": true, "run": run, "op": "new", "seat": -1, "p": -1, "got": -1, "res": "", "state": projSeat(r.m)})
	return r
}

func (r *seatRun) do(op SOp) string {
	if op.Op == "Join" && op.P == 0 {
		op.P = r.nextP // a fresh player id per Join
	}
	if op.Op == "Join" {
		r.nextP++
	}
	got, res := applySeat(r.m, op)
	rec := op
	if op.Op == "Join" && op.Seat == -1 && got >= 0 {
		rec.Got = got + 1
	}
	r.script.Ops = append(r.script.Ops, rec)
	r.o.write(M{"kind": "main", "reset": false, "run": r.run, "op": op.Op, "seat": op.Seat, "p": op.P, "got": got, "res": res, "state": projSeat(r.m)})
	return res
}

func randomSeatHistory(o *potsOut, run int, r *rand.Rand, steps int) *seatRun {
	max := 2 + r.Intn(9)
	if r.Intn(3) == 0 {
		max = 2 + r.Intn(4)
	}
	sr := newSeatRun(o, run, max)
	// phases make long stretches of "others staying put" likely
	for i := 0; i < steps; i++ {
		seat := r.Intn(max)
		if r.Intn(25) == 0 {
			seat = []int{-2, -1, max, max + 1, max + 7}[r.Intn(5)]
		}
		k := r.Intn(100)
		var res string
		switch {
		case k < 22:
			js := seat
			if r.Intn(3) == 0 {
				js = -1
			}
			res = sr.do(SOp{Op: "Join", Seat: js, P: 0})
			if res == "" && r.Intn(4) != 0 {
				// most players sit in right away
				last := sr.script.Ops[len(sr.script.Ops)-1]
				_ = last
				// find the seat the player got: scan for the newest player id
				for s := 0; s < max; s++ {
					if st := sr.m.GetSeat(s); st != nil && st.Player != nil && st.Player.(int) == sr.nextP-1 {
						sr.do(SOp{Op: "SitIn", Seat: s, P: 0})
					}
				}
			}
		case k < 30:
			sr.do(SOp{Op: "SitIn", Seat: seat, P: 0})
		case k < 36:
			sr.do(SOp{Op: "Reserve", Seat: seat, P: 0})
		case k < 46:
			sr.do(SOp{Op: "Leave", Seat: seat, P: 0})
		default:
			res = sr.do(SOp{Op: "Next", Seat: -1, P: 0})
			if res == "PANIC" {
				return sr
			}
		}
	}
	return sr
}

func writeSeatScripts(path string, rs []*seatRun) {
	if path == "" {
		return
	}
	tw := newTraceWriter(path)
	o := &potsOut{w: tw}
	for _, r := range rs {
		b, _ := json.Marshal(r.script)
		var m M
		json.Unmarshal(b, &m)
		o.write(m)
	}
	tw.close()
}

func cmdSeatRandom(args []string) {
	fs := flag.NewFlagSet("seat-random", flag.ExitOnError)
	out := fs.String("o", "seat.ndjson", "")
	scripts := fs.String("scripts", "", "")
	runs := fs.Int("runs", 200, "")
	steps := fs.Int("steps", 60, "")
	seed := fs.Int64("seed", 1, "")
	fs.Parse(args)
	r := rand.New(rand.NewSource(*seed))
	tw := newTraceWriter(*out)
	o := &potsOut{w: tw}
	var rs []*seatRun
	for i := 0; i < *runs; i++ {
		rs = append(rs, randomSeatHistory(o, i, r, *steps))
	}
	tw.close()
	writeSeatScripts(*scripts, rs)
	b, _ := json.Marshal(M{"runs": *runs, "lines": o.lines})
	fmt.Println(string(b))
}

func cmdSeatReplay(args []string) {
	fs := flag.NewFlagSet("seat-replay", flag.ExitOnError)
	in := fs.String("scripts", "", "")
	out := fs.String("o", "seat.ndjson", "")
	outScripts := fs.String("out-scripts", "", "")
	only := fs.Int("run", -1, "")
	pin := fs.Bool("pin", false, "replace Join(-1) by a join of the seat the recorded run got (the code picks it with math/rand)")
	repeat := fs.Int("repeat", 1, "replay each script this many times")
	fs.Parse(args)
	tw := newTraceWriter(*out)
	o := &potsOut{w: tw}
	var rs []*seatRun
	var raws [][]byte
	for k := 0; k < *repeat; k++ {
		raws = append(raws, readNDJSON(*in)...)
	}
	for _, raw := range raws {
		var s SScript
		if err := json.Unmarshal(raw, &s); err != nil {
			fatal("bad script: %v", err)
		}
		if *only >= 0 && s.Run != *only {
			continue
		}
		sr := newSeatRun(o, s.Run, s.Max)
		for _, op := range s.Ops {
			if *pin && op.Op == "Join" && op.Seat == -1 && op.Got > 0 {
				op.Seat = op.Got - 1
			}
			op.Got = 0
			if sr.do(op) == "PANIC" {
				break
			}
		}
		rs = append(rs, sr)
	}
	tw.close()
	writeSeatScripts(*outScripts, rs)
	b, _ := json.Marshal(M{"runs": len(rs), "lines": o.lines})
	fmt.Println(string(b))
}

// ---- exhaustive exploration of the implementation's graph --------------------------------

// anon: player identities are dropped from the key (the manager never looks at them), which makes
// 5- and 6-seat graphs small enough to enumerate
func seatKey(m *sm.SeatManager, anon bool) [20]byte {
	max := m.GetSeatCount()
	buf := make([]byte, 0, 4*max+8)
	id := func(s *sm.Seat) byte {
		if s == nil {
			return 255
		}
		return byte(s.ID)
	}
	for i := 0; i < max; i++ {
		s := m.GetSeat(i)
		p := 0
		if s.Player != nil {
			p = 1
			if !anon {
				p = 1 + s.Player.(int)
			}
		}
		f := byte(0)
		if s.IsActive {
			f |= 1
		}
		if s.IsReserved {
			f |= 2
		}
		buf = append(buf, byte(p), byte(p>>8), f)
	}
	buf = append(buf, id(m.Dealer()), id(m.SmallBlind()), id(m.BigBlind()))
	return sha1.Sum(buf)
}

// snapshot / restore through the manager's own ApplyStates (the complete internal state is seats + positions)
func snapshot(m *sm.SeatManager) *sm.SeatManagerState {
	st := &sm.SeatManagerState{Max: m.GetSeatCount(), Seats: map[int]*sm.Seat{}, Dealer: -1, SB: -1, BB: -1}
	for i := 0; i < st.Max; i++ {
		s := m.GetSeat(i)
		st.Seats[i] = &sm.Seat{ID: i, IsActive: s.IsActive, IsReserved: s.IsReserved, Player: s.Player}
	}
	if d := m.Dealer(); d != nil {
		st.Dealer = d.ID
	}
	if d := m.SmallBlind(); d != nil {
		st.SB = d.ID
	}
	if d := m.BigBlind(); d != nil {
		st.BB = d.ID
	}
	return st
}

func restore(st *sm.SeatManagerState) *sm.SeatManager {
	m := sm.NewSeatManager(st.Max)
	m.ApplyStates(st)
	return m
}

func rebuild(max int, path []SOp) *sm.SeatManager {
	m := sm.NewSeatManager(max)
	for _, op := range path {
		applySeat(m, op)
	}
	return m
}

func cmdSeatExplore(args []string) {
	fs := flag.NewFlagSet("seat-explore", flag.ExitOnError)
	out := fs.String("o", "seatexplore.ndjson", "")
	max := fs.Int("max", 3, "seats")
	nplayers := fs.Int("players", 4, "player ids 1..k (a player id is never seated twice)")
	maxStates := fs.Int("max-states", 3000000, "")
	anon := fs.Bool("anon", false, "identify states up to player identities")
	emit := fs.String("emit", "all", "all | changing (calls that change the seat map, and every Next) | next (Next only)")
	fork := fs.String("fork", "replay", "replay: states are rebuilt by replaying their op path | snapshot: ApplyStates")
	sample := fs.Int("sample", 1, "record the calls of every k-th state only (all states are still explored)")
	lateJoin := fs.Int("latejoin", 0, "k > 0: from every k-th state, for every empty seat strictly between a playable dealer and big blind, play Join, SitIn, Next, Next as a short run (C08, second sentence)")
	frontier := fs.String("frontier", "bfs", "bfs | random (expand a random state of the frontier: reaches deep states of a graph too large to finish)")
	seed := fs.Int64("seed", 1, "")
	fs.Parse(args)
	rr := rand.New(rand.NewSource(*seed))
	tw := newTraceWriter(*out)
	o := &potsOut{w: tw}
	type node struct {
		path []SOp
		snap *sm.SeatManagerState
		// positions and occupied seats right after the last successful Next on the path (history of the late-joiner clause)
		posAtNext []int
		occAtNext []int
	}
	mk := func(nd node) *sm.SeatManager {
		if *fork == "snapshot" && nd.snap != nil {
			return restore(nd.snap)
		}
		return rebuild(*max, nd.path)
	}
	seen := map[[20]byte]bool{}
	queue := []node{{posAtNext: []int{-1, -1, -1}, occAtNext: []int{}}}
	seen[seatKey(sm.NewSeatManager(*max), *anon)] = true
	states, trans, panics, lateRuns := 0, 0, 0, 0
	for len(queue) > 0 && states < *maxStates {
		var nd node
		if *frontier == "random" {
			k := rr.Intn(len(queue))
			nd = queue[k]
			queue[k] = queue[len(queue)-1]
			queue = queue[:len(queue)-1]
		} else {
			nd = queue[0]
			queue = queue[1:]
		}
		states++
		m0 := mk(nd)
		pre := projSeat(m0)
		preKey := seatKey(m0, false)
		record := *sample <= 1 || rr.Intn(*sample) == 0
		if record {
			o.write(M{"kind": "reset", "reset": true, "run": states, "op": "state", "seat": -1, "p": -1, "got": -1, "res": "", "state": pre})
		}
		seated := map[int]bool{}
		for i := 0; i < *max; i++ {
			if s := m0.GetSeat(i); s != nil && s.Player != nil {
				seated[s.Player.(int)] = true
			}
		}
		var ops []SOp
		for s := -2; s <= *max+1; s++ {
			for p := 1; p <= *nplayers; p++ {
				if !seated[p] {
					ops = append(ops, SOp{Op: "Join", Seat: s, P: p})
					break // player ids are interchangeable: the smallest free id suffices
				}
			}
			if *anon && s == -2 {
				*nplayers = *max + 1 // there is always a free id
			}
		}
		for s := -1; s <= *max; s++ {
			ops = append(ops, SOp{Op: "SitIn", Seat: s, P: 0}, SOp{Op: "Reserve", Seat: s, P: 0}, SOp{Op: "Leave", Seat: s, P: 0})
		}
		ops = append(ops, SOp{Op: "Next", Seat: -1, P: 0})
		// Join(-1) picks its seat at random: try it several times
		for k := 0; k < 5 && *emit == "all"; k++ {
			ops = append(ops, ops[1])
		}
		for _, op := range ops {
			m := mk(nd)
			got, res := applySeat(m, op)
			trans++
			if record && (*emit == "all" || op.Op == "Next" || (*emit == "changing" && seatKey(m, false) != preKey)) {
				o.write(M{"kind": "probe", "reset": false, "run": states, "op": op.Op, "seat": op.Seat, "p": op.P, "got": got, "res": res, "state": projSeat(m)})
			}
			if res == "PANIC" {
				panics++
				continue
			}
			k := seatKey(m, *anon)
			if !seen[k] {
				seen[k] = true
				np := append(append([]SOp{}, nd.path...), op)
				if op.Op == "Join" && op.Seat == -1 {
					// the random choice of Join(-1) is pinned for the rebuild: re-join the seat it got
					np[len(np)-1] = SOp{Op: "Join", Seat: got, P: op.P}
				}
				child := node{path: np, snap: snapshot(m), posAtNext: nd.posAtNext, occAtNext: nd.occAtNext}
				if op.Op == "Next" && res == "" {
					pj := projSeat(m)
					child.posAtNext = []int{pj["dealer"].(int), pj["sb"].(int), pj["bb"].(int)}
					child.occAtNext = []int{}
					for i := 0; i < *max; i++ {
						if st := m.GetSeat(i); st != nil && st.Player != nil {
							child.occAtNext = append(child.occAtNext, i)
						}
					}
				}
				queue = append(queue, child)
			}
		}
		// (after the probes of this state: the short runs below advance the trace's current state)
		if *lateJoin > 0 && rr.Intn(*lateJoin) == 0 {
			d, b := m0.Dealer(), m0.BigBlind()
			playable := func(st *sm.Seat) bool { return st != nil && st.Player != nil && st.IsActive && !st.IsReserved }
			if playable(d) && playable(b) && d.ID != b.ID {
				for x := (d.ID + 1) % *max; x != b.ID; x = (x + 1) % *max {
					if st := m0.GetSeat(x); st == nil || st.Player != nil {
						continue
					}
					lateRuns++
					mm := mk(nd)
					o.write(M{"kind": "reset", "reset": true, "run": 50000000 + lateRuns, "op": "state", "seat": -1, "p": -1, "got": -1, "res": "", "state": projSeat(mm),
						"posAtNext": nd.posAtNext, "occAtNext": nd.occAtNext})
					for _, op := range []SOp{{Op: "Join", Seat: x, P: 99}, {Op: "SitIn", Seat: x}, {Op: "Next", Seat: -1}, {Op: "Next", Seat: -1}, {Op: "Next", Seat: -1}} {
						got, res := applySeat(mm, op)
						o.write(M{"kind": "main", "reset": false, "run": 50000000 + lateRuns, "op": op.Op, "seat": op.Seat, "p": op.P, "got": got, "res": res, "state": projSeat(mm)})
						if res == "PANIC" {
							break
						}
					}
				}
			}
		}
	}
	tw.close()
	b, _ := json.Marshal(M{"states": states, "distinct": len(seen), "transitions": trans, "panics": panics, "lateJoinRuns": lateRuns, "lines": o.lines})
	fmt.Println(string(b))
}

package main

// Drivers for seat_manager.SeatManager (C08, C17, C18).
//   seat-random  : seeded random histories of Join / SitIn / Reserve / Leave / Next on 2..10 seats
//   seat-explore : the implementation's own reachable graph for a small seat count (every op on every
//                  seat incl. out-of-range ones at every state; states are rebuilt by replaying op paths)
//   seat-replay  : scripts (TLC-generated or recorded)
// Every call runs under recover(): a panic is recorded as res = "PANIC".

import (
	"crypto/sha1"
	"encoding/json"
	"flag"
	"fmt"
	"math/rand"

	sm "github.com/weedbox/pokerface/seat_manager"
)

type SOp struct {
	Op   string `json:"op"`
	Seat int    `json:"seat"`
	P    int    `json:"p"`
	Got  int    `json:"got,omitempty"` // Join(-1): the seat the recorded run got, +1 (0 = not recorded)
}

type SScript struct {
	Run int   `json:"run"`
	Max int   `json:"max"`
	Ops []SOp `json:"ops"`
}

func projSeat(m *sm.SeatManager) M {
	max := m.GetSeatCount()
	seats := []M{}
	for i := 0; i < max; i++ {
		s := m.GetSeat(i)
		if s == nil {
			seats = append(seats, M{"player": -1, "active": false, "reserved": false, "missing": true})
			continue
		}
		p := -1
		if s.Player != nil {
			if v, ok := s.Player.(int); ok {
				p = v
			} else {
				p = 999999
			}
		}
		seats = append(seats, M{"player": p, "active": s.IsActive, "reserved": s.IsReserved})
	}
	id := func(s *sm.Seat) int {
		if s == nil {
			return -1
		}
		return s.ID
	}
	return M{"max": max, "seat": seats, "dealer": id(m.Dealer()), "sb": id(m.SmallBlind()), "bb": id(m.BigBlind())}
}

// applySeat performs op under recover(); returns (got seat for Join, result string)
func applySeat(m *sm.SeatManager, op SOp) (got int, res string) {
	got = -1
	defer func() {
		if r := recover(); r != nil {
			res = "PANIC"
		}
	}()
	var err error
	switch op.Op {
	case "Join":
		got, err = m.Join(op.Seat, op.P)
	case "SitIn":
		err = m.Seat(op.Seat)
	case "Reserve":
		err = m.Reserve(op.Seat)
	case "Leave":
		err = m.Leave(op.Seat)
	case "Next":
		err = m.Next()
	case "Reset":
		m.Reset()
	default:
		return -1, "harness: unknown op"
	}
	if err != nil {
		return got, err.Error()
	}
	return got, ""
}

type seatRun struct {
	o      *potsOut
	run    int
	m      *sm.SeatManager
	script SScript
	nextP  int
}

func newSeatRun(o *potsOut, run, max int) *seatRun {
	r := &seatRun{o: o, run: run, m: sm.NewSeatManager(max), script: SScript{Run: run, Max: max}, nextP: 1}
	o.write(M{"kind": "reset", "reset": true, "run": run, "op": "new", "seat": -1, "p": -1, "got": -1, "res": "", "state": projSeat(r.m)})
	return r
}

func (r *seatRun) do(op SOp) string {
	if op.Op == "Join" && op.P == 0 {
		op.P = r.nextP // a fresh player id per Join
	}
	if op.Op == "Join" {
		r.nextP++
	}
	got, res := applySeat(r.m, op)
	rec := op
	if op.Op == "Join" && op.Seat == -1 && got >= 0 {
		rec.Got = got + 1
	}
	r.script.Ops = append(r.script.Ops, rec)
	r.o.write(M{"kind": "main", "reset": false, "run": r.run, "op": op.Op, "seat": op.Seat, "p": op.P, "got": got, "res": res, "state": projSeat(r.m)})
	return res
}

func randomSeatHistory(o *potsOut, run int, r *rand.Rand, steps int) *seatRun {
	max := 2 + r.Intn(9)
	if r.Intn(3) == 0 {
		max = 2 + r.Intn(4)
	}
	sr := newSeatRun(o, run, max)
	resets := r.Intn(3) == 0 // one history in three uses Reset()
	// phases make long stretches of "others staying put" likely
	for i := 0; i < steps; i++ {
		seat := r.Intn(max)
		if r.Intn(25) == 0 {
			seat = []int{-2, -1, max, max + 1, max + 7}[r.Intn(5)]
		}
		k := r.Intn(100)
		var res string
		switch {
		case k < 22:
			js := seat
			if r.Intn(3) == 0 {
				js = -1
			}
			res = sr.do(SOp{Op: "Join", Seat: js, P: 0})
			if res == "" && r.Intn(4) != 0 {
				// most players sit in right away
				last := sr.script.Ops[len(sr.script.Ops)-1]
				_ = last
				// find the seat the player got: scan for the newest player id
				for s := 0; s < max; s++ {
					if st := sr.m.GetSeat(s); st != nil && st.Player != nil && st.Player.(int) == sr.nextP-1 {
						sr.do(SOp{Op: "SitIn", Seat: s, P: 0})
					}
				}
			}
		case k < 30:
			sr.do(SOp{Op: "SitIn", Seat: seat, P: 0})
		case k < 36:
			sr.do(SOp{Op: "Reserve", Seat: seat, P: 0})
		case k < 46:
			sr.do(SOp{Op: "Leave", Seat: seat, P: 0})
		case k < 48 && resets:
			// everybody is sent away (the positions stay where they were); most of the time the table fills up again at once
			sr.do(SOp{Op: "Reset", Seat: -1, P: 0})
			for s := 0; s < max && r.Intn(3) != 0; s++ {
				if r.Intn(4) != 0 && sr.do(SOp{Op: "Join", Seat: s, P: 0}) == "" && r.Intn(5) != 0 {
					sr.do(SOp{Op: "SitIn", Seat: s, P: 0})
				}
			}
		default:
			res = sr.do(SOp{Op: "Next", Seat: -1, P: 0})
			if res == "PANIC" {
				return sr
			}
		}
	}
	return sr
}

func writeSeatScripts(path string, rs []*seatRun) {
	if path == "" {
		return
	}
	tw := newTraceWriter(path)
	o := &potsOut{w: tw}
	for _, r := range rs {
		b, _ := json.Marshal(r.script)
		var m M
		json.Unmarshal(b, &m)
		o.write(m)
	}
	tw.close()
}

func cmdSeatRandom(args []string) {
	fs := flag.NewFlagSet("seat-random", flag.ExitOnError)
	out := fs.String("o", "seat.ndjson", "")
	scripts := fs.String("scripts", "", "")
	runs := fs.Int("runs", 200, "")
	steps := fs.Int("steps", 60, "")
	seed := fs.Int64("seed", 1, "")
	fs.Parse(args)
	r := rand.New(rand.NewSource(*seed))
	tw := newTraceWriter(*out)
	o := &potsOut{w: tw}
	var rs []*seatRun
	for i := 0; i < *runs; i++ {
		rs = append(rs, randomSeatHistory(o, i, r, *steps))
	}
	tw.close()
	writeSeatScripts(*scripts, rs)
	b, _ := json.Marshal(M{"runs": *runs, "lines": o.lines})
	fmt.Println(string(b))
}

func cmdSeatReplay(args []string) {
	fs := flag.NewFlagSet("seat-replay", flag.ExitOnError)
	in := fs.String("scripts", "", "")
	out := fs.String("o", "seat.ndjson", "")
	outScripts := fs.String("out-scripts", "", "")
	only := fs.Int("run", -1, "")
	pin := fs.Bool("pin", false, "replace Join(-1) by a join of the seat the recorded run got (the code picks it with math/rand)")
	repeat := fs.Int("repeat", 1, "replay each script this many times")
	lateJoin := fs.Bool("latejoin", false, "after each script: for every empty seat strictly between a playable dealer and big blind, play Join, SitIn, Next x3 as a short run of its own (C08, second sentence)")
	fs.Parse(args)
	tw := newTraceWriter(*out)
	o := &potsOut{w: tw}
	var rs []*seatRun
	var raws [][]byte
	lateRuns := 0
	for k := 0; k < *repeat; k++ {
		raws = append(raws, readNDJSON(*in)...)
	}
	for _, raw := range raws {
		var s SScript
		if err := json.Unmarshal(raw, &s); err != nil {
			fatal("bad script: %v", err)
		}
		if *only >= 0 && s.Run != *only {
			continue
		}
		sr := newSeatRun(o, s.Run, s.Max)
		var played []SOp // the ops with Join(-1) pinned to the seat it got: rebuilds the same manager
		posAtNext, occAtNext := []int{-1, -1, -1}, []int{}
		lastDealer := -1
		crashed := false
		for _, op := range s.Ops {
			if *pin && op.Op == "Join" && op.Seat == -1 && op.Got > 0 {
				op.Seat = op.Got - 1
			}
			op.Got = 0
			res := sr.do(op)
			if res == "PANIC" {
				crashed = true
				break
			}
			last := sr.script.Ops[len(sr.script.Ops)-1]
			if last.Op == "Join" && last.Seat == -1 && last.Got > 0 {
				last.Seat = last.Got - 1
			}
			last.Got = 0
			played = append(played, last)
			if op.Op == "Next" || op.Op == "Reset" {
				lastDealer = -1
				if d := sr.m.Dealer(); d != nil {
					lastDealer = d.ID
				}
			}
			if op.Op == "Reset" {
				posAtNext, occAtNext = []int{-1, -1, -1}, []int{}
			}
			if op.Op == "Next" && res == "" {
				pj := projSeat(sr.m)
				posAtNext = []int{pj["dealer"].(int), pj["sb"].(int), pj["bb"].(int)}
				occAtNext = []int{}
				for i := 0; i < s.Max; i++ {
					if st := sr.m.GetSeat(i); st != nil && st.Player != nil {
						occAtNext = append(occAtNext, i)
					}
				}
			}
		}
		rs = append(rs, sr)
		if *lateJoin && !crashed {
			d, b := sr.m.Dealer(), sr.m.BigBlind()
			playable := func(st *sm.Seat) bool { return st != nil && st.Player != nil && st.IsActive && !st.IsReserved }
			if playable(d) && playable(b) && d.ID != b.ID {
				for x := (d.ID + 1) % s.Max; x != b.ID; x = (x + 1) % s.Max {
					if st := sr.m.GetSeat(x); st == nil || st.Player != nil {
						continue
					}
					lateRuns++
					mm := rebuild(s.Max, played)
					if seatKey(mm, false) != seatKey(sr.m, false) {
						continue // the rebuild did not give the same manager (cannot happen with pinned joins): no run rather than a wrong one
					}
					run := 60000000 + lateRuns
					o.write(M{"kind": "reset", "reset": true, "run": run, "op": "state", "seat": -1, "p": -1, "got": -1, "res": "", "state": projSeat(mm),
						"posAtNext": posAtNext, "occAtNext": occAtNext, "lastDealer": lastDealer})
					for _, op := range []SOp{{Op: "Join", Seat: x, P: 99999}, {Op: "SitIn", Seat: x}, {Op: "Next", Seat: -1}, {Op: "Next", Seat: -1}, {Op: "Next", Seat: -1}} {
						got, res := applySeat(mm, op)
						o.write(M{"kind": "main", "reset": false, "run": run, "op": op.Op, "seat": op.Seat, "p": op.P, "got": got, "res": res, "state": projSeat(mm)})
						if res == "PANIC" {
							break
						}
					}
				}
			}
		}
	}
	tw.close()
	writeSeatScripts(*outScripts, rs)
	b, _ := json.Marshal(M{"runs": len(rs), "lines": o.lines, "lateJoinRuns": lateRuns})
	fmt.Println(string(b))
}

// ---- exhaustive exploration of the implementation's graph --------------------------------

// anon: player identities are dropped from the key (the manager never looks at them), which makes
// 5- and 6-seat graphs small enough to enumerate
func seatKey(m *sm.SeatManager, anon bool) [20]byte {
	max := m.GetSeatCount()
	buf := make([]byte, 0, 4*max+8)
	id := func(s *sm.Seat) byte {
		if s == nil {
			return 255
		}
		return byte(s.ID)
	}
	for i := 0; i < max; i++ {
		s := m.GetSeat(i)
		p := 0
		if s.Player != nil {
			p = 1
			if !anon {
				p = 1 + s.Player.(int)
			}
		}
		f := byte(0)
		if s.IsActive {
			f |= 1
		}
		if s.IsReserved {
			f |= 2
		}
		buf = append(buf, byte(p), byte(p>>8), f)
	}
	buf = append(buf, id(m.Dealer()), id(m.SmallBlind()), id(m.BigBlind()))
	return sha1.Sum(buf)
}

// snapshot / restore through the manager's own ApplyStates (the complete internal state is seats + positions)
func snapshot(m *sm.SeatManager) *sm.SeatManagerState {
	st := &sm.SeatManagerState{Max: m.GetSeatCount(), Seats: map[int]*sm.Seat{}, Dealer: -1, SB: -1, BB: -1}
	for i := 0; i < st.Max; i++ {
		s := m.GetSeat(i)
		st.Seats[i] = &sm.Seat{ID: i, IsActive: s.IsActive, IsReserved: s.IsReserved, Player: s.Player}
	}
	if d := m.Dealer(); d != nil {
		st.Dealer = d.ID
	}
	if d := m.SmallBlind(); d != nil {
		st.SB = d.ID
	}
	if d := m.BigBlind(); d != nil {
		st.BB = d.ID
	}
	return st
}

func restore(st *sm.SeatManagerState) *sm.SeatManager {
	m := sm.NewSeatManager(st.Max)
	m.ApplyStates(st)
	return m
}

func rebuild(max int, path []SOp) *sm.SeatManager {
	m := sm.NewSeatManager(max)
	for _, op := range path {
		applySeat(m, op)
	}
	return m
}

// seatSig: the signature class of one call for the corpus - coarse enough to keep the corpus small, fine
// enough to tell apart the situations the seat manager treats differently (how many can play, wait, are
// held out; where the positions land relative to the old dealer; empty seats inside the blinds zone).
func seatSig(pre M, op SOp, post M, res string) string {
	n := pre["max"].(int)
	cls := func(st M) int {
		c := 0
		if st["player"].(int) >= 0 {
			c |= 4
		}
		if st["active"].(bool) {
			c |= 2
		}
		if st["reserved"].(bool) {
			c |= 1
		}
		return c
	}
	seats := func(pj M) []M { return pj["seat"].([]M) }
	if op.Op != "Next" {
		t := "out"
		if op.Seat >= 0 && op.Seat < n {
			t = fmt.Sprint(cls(seats(pre)[op.Seat]))
			for _, k := range []string{"dealer", "sb", "bb"} {
				if pre[k].(int) == op.Seat {
					t += k[:1]
				}
			}
		} else if op.Seat == -1 {
			t = "any"
		}
		return fmt.Sprintf("%d|%s|%s|%s", n, op.Op, t, res)
	}
	cnt := func(pj M) (c [8]int) {
		for _, st := range seats(pj) {
			c[cls(st)]++
		}
		return
	}
	cap2 := func(x int) int {
		if x > 2 {
			return 2
		}
		return x
	}
	a, b := cnt(pre), cnt(post)
	rel := func(x, y int) int {
		if x < 0 || y < 0 {
			return -1
		}
		return ((y-x)%n + n) % n
	}
	d0, d1, s1, b1 := pre["dealer"].(int), post["dealer"].(int), post["sb"].(int), post["bb"].(int)
	// empty seats strictly between the new dealer and the new big blind, and how many of them are switched on
	empt, emptOn := 0, 0
	if d1 >= 0 && b1 >= 0 && d1 != b1 {
		for x := (d1 + 1) % n; x != b1; x = (x + 1) % n {
			st := seats(post)[x]
			if st["player"].(int) < 0 {
				empt++
				if st["active"].(bool) {
					emptOn++
				}
			}
		}
	}
	return fmt.Sprintf("%d|Next|%s|pre:p%d,w%d,r%d,ei%d,ea%d|post:p%d,w%d|d%d,s%d,b%d|e%d,%d", n, res,
		a[6], a[4], a[5]+a[7], cap2(a[0]+a[1]), cap2(a[2]+a[3]), b[6], b[4], rel(d0, d1), rel(d1, s1), rel(s1, b1), cap2(empt), cap2(emptOn))
}

func cmdSeatExplore(args []string) {
	fs := flag.NewFlagSet("seat-explore", flag.ExitOnError)
	out := fs.String("o", "seatexplore.ndjson", "")
	max := fs.Int("max", 3, "seats")
	nplayers := fs.Int("players", 4, "player ids 1..k (a player id is never seated twice)")
	maxStates := fs.Int("max-states", 3000000, "")
	anon := fs.Bool("anon", false, "identify states up to player identities")
	noReset := fs.Bool("no-reset", false, "leave Reset() out of the alphabet")
	emit := fs.String("emit", "all", "all | changing (calls that change the seat map, and every Next) | next (Next only)")
	fork := fs.String("fork", "replay", "replay: states are rebuilt by replaying their op path | snapshot: ApplyStates")
	sample := fs.Int("sample", 1, "record the calls of every k-th state only (all states are still explored)")
	lateJoin := fs.Int("latejoin", 0, "k > 0: from every k-th state, for every empty seat strictly between a playable dealer and big blind, play Join, SitIn, Next, Next as a short run (C08, second sentence)")
	frontier := fs.String("frontier", "bfs", "bfs | random (expand a random state of the frontier: reaches deep states of a graph too large to finish)")
	seed := fs.Int64("seed", 1, "")
	corpus := fs.String("corpus", "", "write one script (op path + the call) for the first transition of every signature class (see seatSig) to this file")
	fs.Parse(args)
	rr := rand.New(rand.NewSource(*seed))
	tw := newTraceWriter(*out)
	o := &potsOut{w: tw}
	var cw *potsOut
	sigs := map[string]bool{}
	if *corpus != "" {
		ctw := newTraceWriter(*corpus)
		cw = &potsOut{w: ctw}
		defer ctw.close()
	}
	type node struct {
		path []SOp
		snap *sm.SeatManagerState
		// positions and occupied seats right after the last successful Next on the path (history of the late-joiner clause)
		posAtNext []int
		occAtNext []int
		// the last dealer seat the manager showed on the path (C17: "the previous dealer" is a fact of history)
		lastDealer int
	}
	mk := func(nd node) *sm.SeatManager {
		if *fork == "snapshot" && nd.snap != nil {
			return restore(nd.snap)
		}
		return rebuild(*max, nd.path)
	}
	seen := map[[20]byte]bool{}
	queue := []node{{posAtNext: []int{-1, -1, -1}, occAtNext: []int{}, lastDealer: -1}}
	seen[seatKey(sm.NewSeatManager(*max), *anon)] = true
	states, trans, panics, lateRuns := 0, 0, 0, 0
	for len(queue) > 0 && states < *maxStates {
		var nd node
		if *frontier == "random" {
			k := rr.Intn(len(queue))
			nd = queue[k]
			queue[k] = queue[len(queue)-1]
			queue = queue[:len(queue)-1]
		} else {
			nd = queue[0]
			queue = queue[1:]
		}
		states++
		m0 := mk(nd)
		pre := projSeat(m0)
		preKey := seatKey(m0, false)
		record := *sample <= 1 || rr.Intn(*sample) == 0
		if record {
			o.write(M{"kind": "reset", "reset": true, "run": states, "op": "state", "seat": -1, "p": -1, "got": -1, "res": "", "state": pre, "lastDealer": nd.lastDealer})
		}
		seated := map[int]bool{}
		for i := 0; i < *max; i++ {
			if s := m0.GetSeat(i); s != nil && s.Player != nil {
				seated[s.Player.(int)] = true
			}
		}
		var ops []SOp
		for s := -2; s <= *max+1; s++ {
			for p := 1; p <= *nplayers; p++ {
				if !seated[p] {
					ops = append(ops, SOp{Op: "Join", Seat: s, P: p})
					break // player ids are interchangeable: the smallest free id suffices
				}
			}
			if *anon && s == -2 {
				*nplayers = *max + 1 // there is always a free id
			}
		}
		for s := -1; s <= *max; s++ {
			ops = append(ops, SOp{Op: "SitIn", Seat: s, P: 0}, SOp{Op: "Reserve", Seat: s, P: 0}, SOp{Op: "Leave", Seat: s, P: 0})
		}
		ops = append(ops, SOp{Op: "Next", Seat: -1, P: 0})
		if !*noReset {
			ops = append(ops, SOp{Op: "Reset", Seat: -1, P: 0})
		}
		// Join(-1) picks its seat at random: try it several times
		for k := 0; k < 5 && *emit == "all"; k++ {
			ops = append(ops, ops[1])
		}
		for _, op := range ops {
			m := mk(nd)
			got, res := applySeat(m, op)
			trans++
			if record && (*emit == "all" || op.Op == "Next" || (*emit == "changing" && seatKey(m, false) != preKey)) {
				o.write(M{"kind": "probe", "reset": false, "run": states, "op": op.Op, "seat": op.Seat, "p": op.P, "got": got, "res": res, "state": projSeat(m)})
			}
			if cw != nil {
				if sg := seatSig(pre, op, projSeat(m), res); !sigs[sg] {
					sigs[sg] = true
					b, _ := json.Marshal(SScript{Run: len(sigs), Max: *max, Ops: append(append([]SOp{}, nd.path...), op)})
					var sc M
					json.Unmarshal(b, &sc)
					sc["sig"] = sg
					cw.write(sc)
				}
			}
			if res == "PANIC" {
				panics++
				continue
			}
			k := seatKey(m, *anon)
			if !seen[k] {
				seen[k] = true
				np := append(append([]SOp{}, nd.path...), op)
				if op.Op == "Join" && op.Seat == -1 {
					// the random choice of Join(-1) is pinned for the rebuild: re-join the seat it got
					np[len(np)-1] = SOp{Op: "Join", Seat: got, P: op.P}
				}
				child := node{path: np, snap: snapshot(m), posAtNext: nd.posAtNext, occAtNext: nd.occAtNext, lastDealer: nd.lastDealer}
				if op.Op == "Next" || op.Op == "Reset" {
					child.lastDealer = -1
					if d := m.Dealer(); d != nil {
						child.lastDealer = d.ID
					}
				}
				if op.Op == "Reset" {
					child.posAtNext, child.occAtNext = []int{-1, -1, -1}, []int{}
				}
				if op.Op == "Next" && res == "" {
					pj := projSeat(m)
					child.posAtNext = []int{pj["dealer"].(int), pj["sb"].(int), pj["bb"].(int)}
					child.occAtNext = []int{}
					for i := 0; i < *max; i++ {
						if st := m.GetSeat(i); st != nil && st.Player != nil {
							child.occAtNext = append(child.occAtNext, i)
						}
					}
				}
				queue = append(queue, child)
			}
		}
		// (after the probes of this state: the short runs below advance the trace's current state)
		if *lateJoin > 0 && rr.Intn(*lateJoin) == 0 {
			d, b := m0.Dealer(), m0.BigBlind()
			playable := func(st *sm.Seat) bool { return st != nil && st.Player != nil && st.IsActive && !st.IsReserved }
			if playable(d) && playable(b) && d.ID != b.ID {
				for x := (d.ID + 1) % *max; x != b.ID; x = (x + 1) % *max {
					if st := m0.GetSeat(x); st == nil || st.Player != nil {
						continue
					}
					lateRuns++
					mm := mk(nd)
					o.write(M{"kind": "reset", "reset": true, "run": 50000000 + lateRuns, "op": "state", "seat": -1, "p": -1, "got": -1, "res": "", "state": projSeat(mm),
						"posAtNext": nd.posAtNext, "occAtNext": nd.occAtNext, "lastDealer": nd.lastDealer})
					for _, op := range []SOp{{Op: "Join", Seat: x, P: 99}, {Op: "SitIn", Seat: x}, {Op: "Next", Seat: -1}, {Op: "Next", Seat: -1}, {Op: "Next", Seat: -1}} {
						got, res := applySeat(mm, op)
						o.write(M{"kind": "main", "reset": false, "run": 50000000 + lateRuns, "op": op.Op, "seat": op.Seat, "p": op.P, "got": got, "res": res, "state": projSeat(mm)})
						if res == "PANIC" {
							break
						}
					}
				}
			}
		}
	}
	tw.close()
	b, _ := json.Marshal(M{"states": states, "distinct": len(seen), "transitions": trans, "panics": panics, "lateJoinRuns": lateRuns, "lines": o.lines})
	fmt.Println(string(b))
}

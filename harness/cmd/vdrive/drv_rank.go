package main

// rank-table: the complete function table of combination.CalculatePower (C03).
// All C(52,5) and C(36,5) hands under both ranking tables, each in several card orders,
// reduced to classes (rank multiset, flush?) with every distinct (category, score) seen.

import (
	"encoding/json"
	"flag"
	"fmt"
	"math/rand"
	"sort"
	"sync"

	pf "github.com/weedbox/pokerface"
	"github.com/weedbox/pokerface/combination"
)

type classKey struct {
	r     [5]int
	flush bool
}
type classRes struct {
	comb  int
	score uint64
}

func enumerateHands(deck []string, table combination.PowerRankings, orders int, seed int64) (map[classKey]map[classRes]int, int) {
	n := len(deck)
	out := map[classKey]map[classRes]int{}
	var mu sync.Mutex
	var wg sync.WaitGroup
	total := 0
	for a := 0; a < n; a++ {
		wg.Add(1)
		go func(a int) {
			defer wg.Done()
			r := rand.New(rand.NewSource(seed*1000 + int64(a)))
			loc := map[classKey]map[classRes]int{}
			cnt := 0
			for b := a + 1; b < n; b++ {
				for c := b + 1; c < n; c++ {
					for d := c + 1; d < n; d++ {
						for e := d + 1; e < n; e++ {
							base := [5]string{deck[a], deck[b], deck[c], deck[d], deck[e]}
							var k classKey
							rs := []int{rankOf[base[0][1]], rankOf[base[1][1]], rankOf[base[2][1]], rankOf[base[3][1]], rankOf[base[4][1]]}
							sort.Sort(sort.Reverse(sort.IntSlice(rs)))
							copy(k.r[:], rs)
							k.flush = base[0][0] == base[1][0] && base[1][0] == base[2][0] && base[2][0] == base[3][0] && base[3][0] == base[4][0]
							if loc[k] == nil {
								loc[k] = map[classRes]int{}
							}
							for o := 0; o < orders; o++ {
								h := []string{base[0], base[1], base[2], base[3], base[4]}
								switch o {
								case 0:
								case 1:
									h = []string{base[4], base[3], base[2], base[1], base[0]}
								default:
									r.Shuffle(5, func(i, j int) { h[i], h[j] = h[j], h[i] })
								}
								ps := combination.CalculatePower(table, h)
								loc[k][classRes{int(ps.Combination), ps.Score}]++
								cnt++
							}
						}
					}
				}
			}
			mu.Lock()
			for k, m := range loc {
				if out[k] == nil {
					out[k] = map[classRes]int{}
				}
				for r, c := range m {
					out[k][r] += c
				}
			}
			total += cnt
			mu.Unlock()
		}(a)
	}
	wg.Wait()
	return out, total
}

func cmdRankTable(args []string) {
	fs := flag.NewFlagSet("rank-table", flag.ExitOnError)
	out := fs.String("o", "ranktable.ndjson", "")
	orders := fs.Int("orders", 2, "card orders per hand (sorted, reversed, then seeded shuffles)")
	seed := fs.Int64("seed", 1, "")
	fs.Parse(args)
	tw := newTraceWriter(*out)
	po := &potsOut{w: tw}
	evals, classes := 0, 0
	for _, dk := range []string{"52", "36"} {
		deck := pf.NewStandardDeckCards()
		if dk == "36" {
			deck = pf.NewShortDeckCards()
		}
		for _, tb := range []string{"standard", "short"} {
			table := combination.PowerRankings(combination.CombinationPowerStandard)
			if tb == "short" {
				table = combination.CombinationPowerShortDeck
			}
			m, total := enumerateHands(deck, table, *orders, *seed)
			evals += total
			type line struct {
				k classKey
				r []classRes
			}
			ls := []line{}
			for k, rm := range m {
				l := line{k: k}
				for r := range rm {
					l.r = append(l.r, r)
				}
				sort.Slice(l.r, func(i, j int) bool {
					if l.r[i].score != l.r[j].score {
						return l.r[i].score < l.r[j].score
					}
					return l.r[i].comb < l.r[j].comb
				})
				ls = append(ls, l)
			}
			sort.Slice(ls, func(i, j int) bool {
				if ls[i].r[0].score != ls[j].r[0].score {
					return ls[i].r[0].score < ls[j].r[0].score
				}
				return fmt.Sprint(ls[i].k) < fmt.Sprint(ls[j].k)
			})
			for _, l := range ls {
				// the category is recorded by its NAME (the enum's numbering is an implementation detail)
				rr := [][]interface{}{}
				for _, r := range l.r {
					rr = append(rr, []interface{}{combination.CombinationSymbol[combination.Combination(r.comb)], clip(int64(r.score))})
				}
				po.write(M{"kind": "class", "carry": false, "deck": dk, "table": tb, "ranks": l.k.r, "flush": l.k.flush, "results": rr})
			}
			classes += len(ls)
		}
	}
	tw.close()
	b, _ := json.Marshal(M{"evaluations": evals, "classes": classes, "lines": po.lines})
	fmt.Println(string(b))
}

package main

// tablegame-random: one hand driven through the TABLE layer (table/game.go with the stateless
// NativeBackend: every call rebuilds the game from its JSON state) in lock-step with a plain in-memory
// engine game M that gets the corresponding engine operations.  The table game is asynchronous (a state
// updater goroutine and a ready group): the driver waits for the delivery it expects after each call
// (generous timeout; a missing delivery is recorded as stuck, never guessed).
// One line per table-game call: the table game's state after it came to rest, and M's state.

import (
	"encoding/json"
	"flag"
	"fmt"
	"math/rand"
	"reflect"
	"time"

	pf "github.com/weedbox/pokerface"
	"github.com/weedbox/pokerface/table"
)

type fixedDeckBackend struct {
	*table.NativeBackend
	deck []string
}

func (b *fixedDeckBackend) CreateGame(o *pf.GameOptions) (*pf.GameState, error) {
	gs, err := b.NativeBackend.CreateGame(o)
	if err == nil && gs != nil {
		gs.Meta.Deck = append([]string{}, b.deck...)
	}
	return gs, err
}

func stripExtra(gs *pf.GameState) *pf.GameState {
	c := cloneGS(gs)
	for _, p := range c.Players {
		aa := []string{}
		for _, a := range p.AllowedActions {
			if a != "ready" && a != "pay" {
				aa = append(aa, a)
			}
		}
		p.AllowedActions = aa
	}
	return c
}

func isRest(ev string) bool {
	return ev == "ReadyRequested" || ev == "AnteRequested" || ev == "BlindsRequested" || ev == "RoundStarted" || ev == "GameClosed"
}

func tableGameRun(o *potsOut, run int, r *rand.Rand, cfg HCfg) (wasStuck bool) {
	deck := cfg.Deck
	g := table.NewGame(&fixedDeckBackend{table.NewNativeBackend(), deck}, cfg.options())
	ch := make(chan *pf.GameState, 4096)
	g.OnStateUpdated(func(gs *pf.GameState) { ch <- cloneGS(gs) })
	m := pf.NewPokerFace().NewGame(cfg.options())
	var cur *pf.GameState // the table game's state at rest
	stuck := false
	defer func() { wasStuck = stuck }()
	// wait until the table game rests at a wait point again
	settle := func() {
		for {
			select {
			case gs := <-ch:
				if isRest(gs.Status.CurrentEvent) {
					cur = gs
					return
				}
			case <-time.After(30 * time.Second):
				stuck = true
				return
			}
		}
	}
	mSync := func() {
		for m.GetState().Status.CurrentEvent == "RoundClosed" {
			if m.Next() != nil {
				return
			}
		}
	}
	emit := func(kind, op string, seat int, x int64, err error) {
		st := cur
		if st == nil {
			st = m.GetState()
		}
		ln := M{"kind": kind, "reset": kind == "reset", "run": run, "op": op, "seat": seat, "x": clip(x), "err": errStr(err),
			"TG": projHoldem(st), "deckTG": cards(st.Meta.Deck), "M": projHoldem(m.GetState()), "deckM": cards(m.GetState().Meta.Deck),
			"stuck": stuck, "hasTG": cur != nil}
		ln["rawEq"] = cur == nil || reflect.DeepEqual(rawNorm(stripExtra(cur)), rawNorm(m.GetState()))
		o.write(ln)
	}
	emit("reset", "new", -1, 0, nil)
	err := g.Start()
	em := m.Start()
	if em == nil {
		m.GetState().Meta.Deck = append([]string{}, deck...)
	}
	if err == nil {
		settle()
	}
	emit("main", "TG.Start", -1, 0, err)
	if err != nil || stuck {
		return stuck
	}
	n := len(cfg.Bank)
	done := map[int]bool{}
	hasAllow := func(i int, a string) bool {
		for _, x := range cur.Players[i].AllowedActions {
			if x == a {
				return true
			}
		}
		return false
	}
	participants := func(a string) int {
		k := 0
		for i := 0; i < n; i++ {
			if hasAllow(i, a) {
				k++
			}
		}
		return k
	}
	for steps := 0; steps < 600 && !stuck && cur.Status.CurrentEvent != "GameClosed"; steps++ {
		ev := cur.Status.CurrentEvent
		// now and then a call that must be refused
		if r.Intn(7) == 0 {
			i := r.Intn(n)
			var e error
			switch r.Intn(4) {
			case 0:
				if ev != "ReadyRequested" {
					e = g.Ready(i)
					emit("main", "TG.Ready", i, 0, e)
				}
			case 1:
				if i != cur.Status.CurrentPlayer || ev != "RoundStarted" {
					e = g.Fold(i)
					emit("main", "TG.Fold", i, 0, e)
				}
			case 2:
				if i != cur.Status.CurrentPlayer || ev != "RoundStarted" {
					e = g.Allin(i)
					emit("main", "TG.Allin", i, 0, e)
				}
			case 3:
				e = g.Check(n + 2)
				emit("main", "TG.Check", n+2, 0, e)
			}
			continue
		}
		switch ev {
		case "ReadyRequested", "AnteRequested", "BlindsRequested":
			want := "pay"
			op := "TG.Pay"
			if ev == "ReadyRequested" {
				want, op = "ready", "TG.Ready"
			}
			// a participant that has not done it yet (sometimes one that has: accepted, changes nothing)
			cands := []int{}
			for i := 0; i < n; i++ {
				if hasAllow(i, want) && (!done[i] || r.Intn(5) == 0) {
					cands = append(cands, i)
				}
			}
			if len(cands) == 0 {
				stuck = true
				emit("main", op, -1, 0, nil)
				return stuck
			}
			i := cands[r.Intn(len(cands))]
			var e error
			if want == "ready" {
				e = g.Ready(i)
			} else {
				e = g.Pay(i, 0)
			}
			fresh := e == nil && !done[i]
			if fresh {
				done[i] = true
			}
			if fresh && len(done) == participants(want) {
				// the group is complete: the engine operation happens
				switch ev {
				case "ReadyRequested":
					m.ReadyForAll()
				case "AnteRequested":
					m.PayAnte()
				case "BlindsRequested":
					m.PayBlinds()
				}
				mSync()
				done = map[int]bool{}
				settle()
			}
			emit("main", op, i, 0, e)
		case "RoundStarted":
			c := cur.Status.CurrentPlayer
			p := cur.Players[c]
			a := chooseAction(r, styles[r.Intn(len(styles))], p.AllowedActions, 3)
			hop := actionOp(a, c, cur, r, true)
			var e error
			switch hop.Op {
			case "Pass":
				e = g.Pass(c)
			case "Fold":
				e = g.Fold(c)
			case "Check":
				e = g.Check(c)
			case "Call":
				e = g.Call(c)
			case "Allin":
				e = g.Allin(c)
			case "Bet":
				e = g.Bet(c, hop.X)
			case "Raise":
				e = g.Raise(c, hop.X)
			}
			callOn(m, hop)
			if e == nil {
				mSync()
				settle()
			}
			emit("main", "TG."+hop.Op, c, hop.X, e)
		default:
			stuck = true
			emit("main", "TG.?", -1, 0, nil)
			return stuck
		}
	}
	return stuck
}

func cmdTableGameRandom(args []string) {
	fs := flag.NewFlagSet("tablegame-random", flag.ExitOnError)
	out := fs.String("o", "tablegame.ndjson", "")
	runs := fs.Int("runs", 100, "")
	seed := fs.Int64("seed", 1, "")
	fs.Parse(args)
	r := rand.New(rand.NewSource(*seed))
	tw := newTraceWriter(*out)
	o := &potsOut{w: tw}
	stuckRuns := 0
	for i := 0; i < *runs; i++ {
		cfg := genCfg(r, false)
		// the table layer needs somebody to post a blind (an empty ready group never completes) and a fixed deck
		if cfg.BB == 0 {
			cfg.SB, cfg.BB = 1, 2
		}
		if cfg.Deck == nil {
			cfg.Deck = shuffled(r, cfg.options().Deck)
		}
		if tableGameRun(o, i, r, cfg) {
			stuckRuns++
			if stuckRuns >= 3 {
				break // a table layer that stalls every hand would cost 30 s per run
			}
		}
	}
	tw.close()
	b, _ := json.Marshal(M{"runs": *runs, "lines": o.lines})
	fmt.Println(string(b))
}

func init() {
	commands["tablegame-random"] = cmdTableGameRandom
}

var _ = fmt.Sprintf

package main

// Drivers for one hand of the engine (package pokerface).
//
//   holdem-random : seeded random hands over the configurations the quantifier names,
//                   using only the public API and the actions the real state offers;
//                   with refusal probes and per-action forks on JSON clones
//   holdem-replay : replays scripts (from TLC simulation / counterexamples / a previous
//                   run) op by op against a fresh game, recording the trace
//
// Every call is recorded AFTER it returned (error path too) as one NDJSON line with the
// full projected state (proj_holdem.go). Scripts of all runs are written next to the
// trace so that any run can be replayed from scratch.

import (
	"bufio"
	"encoding/json"
	"flag"
	"fmt"
	"math/rand"
	"os"
	"strings"
	"sync/atomic"
	"time"

	pf "github.com/weedbox/pokerface"
	"github.com/weedbox/pokerface/combination"
)

var rankingStandard = combination.CombinationPowerStandard
var rankingShort = combination.CombinationPowerShortDeck

func eqRanking(a combination.PowerRankings, b []combination.Combination) bool {
	if len(a) != len(b) {
		return false
	}
	for i := range a {
		if a[i] != b[i] {
			return false
		}
	}
	return true
}

// ---- scripts ---------------------------------------------------------------------

type HCfg struct {
	Ante     int64      `json:"ante"`
	Dealer   int64      `json:"dealerBlind"`
	SB       int64      `json:"sb"`
	BB       int64      `json:"bb"`
	Limit    string     `json:"limit"`
	HoleN    int        `json:"holeN"`
	ReqHole  int        `json:"reqHole"`
	Ranking  string     `json:"ranking"`  // "standard" | "short"
	DeckKind string     `json:"deckKind"` // "std" | "short" | "none"
	Bank     []int64    `json:"bank"`
	Pos      [][]string `json:"pos"`
	Deck     []string   `json:"deck"`              // deck forced right after Start (nil: keep the engine's shuffle)
	BurnOpt  int        `json:"burnOpt,omitempty"` // options.BurnCount = 1 + BurnOpt (the engine burns one card per street whatever it says)
}

type HOp struct {
	Op   string `json:"op"`
	Seat int    `json:"seat"`
	X    int64  `json:"x"`
}

type HScript struct {
	Run  int    `json:"run"`
	Cfg  HCfg   `json:"cfg"`
	Ops  []HOp  `json:"ops"`
	Note string `json:"note,omitempty"`
}

func (c *HCfg) options() *pf.GameOptions {
	o := pf.NewStardardGameOptions()
	o.Ante, o.Blind.Dealer, o.Blind.SB, o.Blind.BB = c.Ante, c.Dealer, c.SB, c.BB
	o.Limit = c.Limit
	o.HoleCardsCount = c.HoleN
	o.RequiredHoleCardsCount = c.ReqHole
	o.BurnCount = 1 + c.BurnOpt
	if c.Ranking == "short" {
		o.CombinationPowers = combination.CombinationPowerShortDeck
	}
	switch c.DeckKind {
	case "std":
		o.Deck = pf.NewStandardDeckCards()
	case "short":
		o.Deck = pf.NewShortDeckCards()
	default:
		o.Deck = []string{}
	}
	for i := range c.Bank {
		pos := c.Pos[i]
		if pos == nil {
			pos = []string{}
		}
		o.Players = append(o.Players, &pf.PlayerSetting{Bankroll: c.Bank[i], Positions: append([]string{}, pos...)})
	}
	return o
}

// ---- one hand under test -----------------------------------------------------------

type hand struct {
	tw       *traceWriter
	run      int
	g        pf.Game
	script   HScript
	steps    int
	panicked bool          // the engine panicked on the run's own game: the run stops
	before   *pf.GameState // clone of the state before the call (what a hanging call started from); kept when watch is set
	watch    bool
	hung     bool // a call on the run's own game never returned: the game belongs to the abandoned goroutine, nothing more is done with it
}

func cloneGS(gs *pf.GameState) *pf.GameState {
	b, err := json.Marshal(gs)
	if err != nil {
		fatal("marshal state: %v", err)
	}
	var s pf.GameState
	if err := json.Unmarshal(b, &s); err != nil {
		fatal("unmarshal state: %v", err)
	}
	return &s
}

func newHand(tw *traceWriter, run int, cfg HCfg) *hand {
	h := &hand{tw: tw, run: run}
	h.script = HScript{Run: run, Cfg: cfg}
	h.g = pf.NewPokerFace().NewGame(cfg.options())
	tw.emit(run, true, "new", -1, 0, nil, h.g.GetState(), M{"kind": "reset"})
	return h
}

// callOn performs one operation of the alphabet on game g; a panic inside the engine is recorded as an error
// ("PANIC: ...") - the call did not succeed - instead of killing the driver
func callOn(g pf.Game, op HOp) (err error) {
	defer func() {
		if rec := recover(); rec != nil {
			err = fmt.Errorf("PANIC: %v", rec)
		}
	}()
	return callOnRaw(g, op)
}

// callWatched: callOn under a watchdog. A call that does not come back (seeded change R5h-A: an unbounded walk round the
// table when no seat holds the big blind) is recorded as the call's error ("HANG: ...") - the awaited step did not succeed -
// instead of hanging the driver until the check times out with no verdict. The goroutine is abandoned with its game;
// after three hangs the driver stops starting new work (driverStop).
const hangLimit = 10 * time.Second

var hangs int32
var driverStop bool

func callWatched(g pf.Game, op HOp) error {
	done := make(chan error, 1)
	go func() { done <- callOn(g, op) }()
	select {
	case err := <-done:
		return err
	case <-time.After(hangLimit):
		if atomic.AddInt32(&hangs, 1) >= 3 {
			driverStop = true
		}
		return fmt.Errorf("HANG: the call did not return within %v", hangLimit)
	}
}

func isHang(err error) bool { return err != nil && strings.HasPrefix(err.Error(), "HANG") }

func callOnRaw(g pf.Game, op HOp) error {
	switch op.Op {
	case "Start":
		return g.Start()
	case "ReadyForAll":
		return g.ReadyForAll()
	case "PayAnte":
		return g.PayAnte()
	case "PayBlinds":
		return g.PayBlinds()
	case "Next":
		return g.Next()
	}
	var p pf.Player
	if op.Seat == g.GetState().Status.CurrentPlayer {
		// the route the table backend takes: game-level shortcut to the current player
		switch op.Op {
		case "Fold":
			return g.Fold()
		case "Check":
			return g.Check()
		case "Call":
			return g.Call()
		case "Allin":
			return g.Allin()
		case "Pass":
			return g.Pass()
		case "Bet":
			return g.Bet(op.X)
		case "Raise":
			return g.Raise(op.X)
		}
	}
	p = g.Player(op.Seat)
	if p == nil {
		return fmt.Errorf("harness: no such seat")
	}
	switch op.Op {
	case "Fold":
		return p.Fold()
	case "Check":
		return p.Check()
	case "Call":
		return p.Call()
	case "Allin":
		return p.Allin()
	case "Pass":
		return p.Pass()
	case "Bet":
		return p.Bet(op.X)
	case "Raise":
		return p.Raise(op.X)
	}
	return fmt.Errorf("harness: unknown op %s", op.Op)
}

// do performs op on the hand's own game (a "main" line)
func (h *hand) do(op HOp) error {
	if h.hung {
		return fmt.Errorf("harness: the run ended with a call that never returned")
	}
	h.steps++
	h.script.Ops = append(h.script.Ops, op)
	if op.Op == "Rehydrate" {
		h.g = pf.NewPokerFace().NewGameFromState(cloneGS(h.g.GetState()))
		h.tw.emit(h.run, false, op.Op, -1, 0, nil, h.g.GetState(), M{"kind": "main"})
		return nil
	}
	extra := M{"kind": "main"}
	var err error
	if h.watch {
		h.before = cloneGS(h.g.GetState())
	}
	if op.Op == "Start" {
		err = callWatched(h.g, HOp{Op: "Start"})
		if isHang(err) {
			h.hang(op, err, extra)
			return err
		}
		extra["shuffled"] = cards(h.g.GetState().Meta.Deck)
		if err == nil && h.script.Cfg.Deck != nil {
			// nothing is dealt before the first ReadyForAll: the state is the source of truth
			h.g.GetState().Meta.Deck = append([]string{}, h.script.Cfg.Deck...)
		} else if err == nil {
			h.script.Cfg.Deck = append([]string{}, h.g.GetState().Meta.Deck...)
		}
	} else {
		err = callWatched(h.g, op)
		if isHang(err) {
			h.hang(op, err, extra)
			return err
		}
	}
	h.tw.emit(h.run, false, op.Op, op.Seat, op.X, err, h.g.GetState(), extra)
	if err != nil && strings.HasPrefix(err.Error(), "PANIC") {
		h.panicked = true
	}
	return err
}

// hang: the call on the run's own game did not return. The game is still being written to by the abandoned goroutine, so
// the line carries the state the call STARTED from (rebuilt from the last recorded one) and the run ends.
func (h *hand) hang(op HOp, err error, extra M) {
	h.panicked = true
	h.hung = true
	if h.before != nil {
		h.tw.emit(h.run, false, op.Op, op.Seat, op.X, err, h.before, extra)
	}
}

// probe performs op on a JSON clone of the current state (a side branch of length one)
func (h *hand) probe(op HOp) error {
	if h.hung {
		return fmt.Errorf("harness: the run ended with a call that never returned")
	}
	// recorded in the script as "?<op>": a replay of the script performs the same side branches
	h.script.Ops = append(h.script.Ops, HOp{"?" + op.Op, op.Seat, op.X})
	g := pf.NewPokerFace().NewGameFromState(cloneGS(h.g.GetState()))
	err := callWatched(g, op)
	if isHang(err) {
		h.tw.emit(h.run, false, op.Op, op.Seat, op.X, err, h.g.GetState(), M{"kind": "probe"})
		return err
	}
	h.tw.emit(h.run, false, op.Op, op.Seat, op.X, err, g.GetState(), M{"kind": "probe"})
	return err
}

func (h *hand) closed() bool {
	return driverStop || h.panicked || h.g.GetState().Status.CurrentEvent == "GameClosed"
}

// ---- configuration generator -------------------------------------------------------

var structures = [][4]int64{ // ante, dealer blind, sb, bb
	{0, 0, 1, 2}, {1, 0, 1, 2}, {0, 0, 5, 10}, {2, 0, 5, 10}, {1, 2, 0, 0}, {0, 3, 1, 2}, {3, 0, 1, 2},
	{0, 0, 10, 20}, {5, 0, 10, 20}, {0, 0, 2, 2}, {1, 0, 0, 0}, {0, 10, 5, 10}, {10, 0, 5, 10}, {0, 0, 50, 100},
}

// structures with the big blind only: the engine skips the blind phase (known finding F6)
var bbOnlyStructures = [][4]int64{{0, 0, 0, 2}, {1, 0, 0, 10}}

func rolePositions(n, d int, dead bool) [][]string {
	pos := make([][]string, n)
	for i := 0; i < n; i++ {
		k := (i - d + n) % n
		pos[i] = []string{}
		if n == 2 {
			if k == 0 {
				pos[i] = []string{"dealer", "sb"}
			} else {
				pos[i] = []string{"bb"}
			}
			continue
		}
		switch k {
		case 0:
			pos[i] = []string{"dealer"}
		case 1:
			if !dead {
				pos[i] = []string{"sb"}
			}
		case 2:
			pos[i] = []string{"bb"}
		}
	}
	return pos
}

func shuffled(r *rand.Rand, deck []string) []string {
	d := append([]string{}, deck...)
	r.Shuffle(len(d), func(i, j int) { d[i], d[j] = d[j], d[i] })
	return d
}

func genCfg(r *rand.Rand, bbOnly bool) HCfg {
	var c HCfg
	st := structures[r.Intn(len(structures))]
	if bbOnly {
		st = bbOnlyStructures[r.Intn(len(bbOnlyStructures))]
	}
	c.Ante, c.Dealer, c.SB, c.BB = st[0], st[1], st[2], st[3]
	c.Limit = "no"
	if r.Intn(4) == 0 {
		c.Limit = "pot"
	}
	c.HoleN, c.ReqHole = 2, 0
	switch k := r.Intn(20); {
	case k < 4:
		c.HoleN, c.ReqHole = 4, 2
	case k < 6:
		c.HoleN, c.ReqHole = 2, 2 // every hole card is required
	case k == 6:
		c.HoleN, c.ReqHole = 3, 2
	case k == 7:
		c.HoleN, c.ReqHole = 4, 0
	}
	c.DeckKind, c.Ranking = "std", "standard"
	if r.Intn(4) == 0 {
		c.DeckKind, c.Ranking = "short", "short"
	}
	maxN := 10
	deckSize := 52
	if c.DeckKind == "short" {
		deckSize = 36
	}
	for maxN*c.HoleN+8 > deckSize {
		maxN--
	}
	// 2..6 seats mostly, up to maxN
	n := 2 + r.Intn(5)
	if r.Intn(5) == 0 {
		n = 2 + r.Intn(maxN-1)
	}
	if n > maxN {
		n = maxN
	}
	d := r.Intn(n)
	dead := n > 2 && r.Intn(5) == 0
	c.Pos = rolePositions(n, d, dead)
	// bankrolls: boundary stacks around every forced amount, or random up to a cap
	caps := []int64{3, 6, 12, 30, 60, 200, 1000, 20000, 1000000}
	capv := caps[r.Intn(len(caps))]
	bounds := []int64{1, 2, c.Ante - 1, c.Ante, c.Ante + 1, c.SB - 1, c.SB, c.SB + 1, c.BB - 1, c.BB, c.BB + 1, c.BB + c.Ante,
		c.BB + c.Ante + 1, c.SB + c.Ante, c.Dealer, c.Dealer + 1, c.Dealer + c.Ante, 2 * c.BB, 2*c.BB + 1, 3 * c.BB, 4*c.BB + c.Ante}
	for i := 0; i < n; i++ {
		var b int64
		if r.Intn(3) == 0 {
			b = bounds[r.Intn(len(bounds))]
		} else {
			b = 1 + r.Int63n(capv)
		}
		if b < 1 {
			b = 1
		}
		c.Bank = append(c.Bank, b)
	}
	base := pf.NewStandardDeckCards()
	if c.DeckKind == "short" {
		base = pf.NewShortDeckCards()
	}
	if r.Intn(8) != 0 {
		c.Deck = shuffled(r, base)
		if r.Intn(6) == 0 {
			// a board that plays for everybody (royal flush): every showdown is a tie of all non-folded players,
			// which sends odd chips and merged side-pot levels through real play
			royal := map[string]bool{"SA": true, "SK": true, "SQ": true, "SJ": true, "ST": true}
			var rest, roy []string
			for _, x := range c.Deck {
				if royal[x] {
					roy = append(roy, x)
				} else {
					rest = append(rest, x)
				}
			}
			k := n * c.HoleN
			if len(rest) >= k+3 {
				d := append([]string{}, rest[:k]...)
				d = append(d, rest[k], roy[0], roy[1], roy[2], rest[k+1], roy[3], rest[k+2], roy[4])
				d = append(d, rest[k+3:]...)
				c.Deck = d
			}
		}
	} // else: keep the engine's own shuffle
	if r.Intn(5) == 0 {
		c.BurnOpt = []int{-1, 1}[r.Intn(2)] // hand-written options: burn count 0 or 2
	}
	return c
}

// ---- random play ---------------------------------------------------------------------

type style struct{ fold, passive, aggr, allin int } // weights

var styles = []style{{1, 6, 2, 1}, {1, 3, 5, 1}, {0, 8, 1, 0}, {2, 2, 2, 3}, {0, 3, 3, 4}, {3, 4, 2, 1}, {0, 1, 8, 1}}

func pickW(r *rand.Rand, xs []int64) int64 { return xs[r.Intn(len(xs))] }

func betAmounts(s *pf.GameState, p *pf.PlayerState, r *rand.Rand) []int64 {
	mb := s.Status.MiniBet
	xs := []int64{1, mb - 1, mb, mb + 1, 2 * mb, p.StackSize - 1, p.StackSize, p.StackSize + 1, p.StackSize / 2, 1 + r.Int63n(p.StackSize+1)}
	return xs
}

func raiseAmounts(s *pf.GameState, p *pf.PlayerState, r *rand.Rand) []int64 {
	cw, prs := s.Status.CurrentWager, s.Status.PreviousRaiseSize
	in := p.InitialStackSize
	return []int64{cw + 1, cw + prs - 1, cw + prs, cw + prs + 1, cw + 2*prs, 2*cw + prs, in - 1, in, in + 1, cw + 1 + r.Int63n(in+1)}
}

var badAmounts = []int64{0, -1, -7, -100000000, 100000000}

func actionOp(a string, seat int, s *pf.GameState, r *rand.Rand, wild bool) HOp {
	p := s.Players[seat]
	switch a {
	case "pass":
		return HOp{"Pass", seat, 0}
	case "fold":
		return HOp{"Fold", seat, 0}
	case "check":
		return HOp{"Check", seat, 0}
	case "call":
		return HOp{"Call", seat, 0}
	case "allin":
		return HOp{"Allin", seat, 0}
	case "bet":
		x := pickW(r, betAmounts(s, p, r))
		if x < 1 && !wild {
			x = 1
		}
		return HOp{"Bet", seat, x}
	case "raise":
		x := pickW(r, raiseAmounts(s, p, r))
		return HOp{"Raise", seat, x}
	}
	return HOp{"Pass", seat, 0}
}

func chooseAction(r *rand.Rand, st style, allowed []string, raises int) string {
	// every offered action keeps a positive probability
	w := make([]int, len(allowed))
	tot := 0
	for i, a := range allowed {
		switch a {
		case "fold":
			w[i] = 1 + 2*st.fold
		case "check", "call", "pass":
			w[i] = 1 + 3*st.passive
		case "bet", "raise":
			w[i] = 1 + 3*st.aggr
			if raises > 6 {
				w[i] = 1
			}
		case "allin":
			w[i] = 1 + 2*st.allin
		default:
			w[i] = 1
		}
		tot += w[i]
	}
	k := r.Intn(tot)
	for i := range allowed {
		if k < w[i] {
			return allowed[i]
		}
		k -= w[i]
	}
	return allowed[0]
}

type randOpts struct {
	probeRefusals bool // at every state try every seat x action and every table op on clones
	forkActions   bool // at every decision point exercise every offered action / size class on clones
	wrongOps      bool // sprinkle out-of-turn / wrong-phase calls on the main game
	rehydrate     int  // 1 in k steps: JSON round trip of the main game (0: never)
	bbOnly        bool
	passive       bool // check / call down to the river
	watch         bool // keep a clone of the state before every call, so that a call that never returns can be recorded
	noBB          bool // layouts in which no seat holds the big blind (and, half of the time, none the small blind)
}

var allActions = []string{"Fold", "Check", "Call", "Allin", "Pass", "Bet", "Raise"}
var tableOps = []string{"ReadyForAll", "PayAnte", "PayBlinds", "Next"}

func (h *hand) probeAll(r *rand.Rand) {
	s := h.g.GetState()
	for _, op := range tableOps {
		h.probe(HOp{op, -1, 0})
	}
	cw, prs := s.Status.CurrentWager, s.Status.PreviousRaiseSize
	for i, p := range s.Players {
		for _, a := range allActions {
			switch a {
			case "Bet", "Raise":
				amts := []int64{-100000000, -s.Meta.Blind.BB, -1, 0, 1, cw - 1, cw, cw + 1, cw + prs - 1, cw + prs, cw + prs + 1,
					p.StackSize - 1, p.StackSize, p.StackSize + 1, p.InitialStackSize, p.InitialStackSize + 1, 100000000}
				seen := map[int64]bool{}
				for _, x := range amts {
					if seen[x] {
						continue
					}
					seen[x] = true
					h.probe(HOp{a, i, x})
				}
			default:
				h.probe(HOp{a, i, 0})
			}
		}
	}
}

func (h *hand) forkOffered(r *rand.Rand) {
	s := h.g.GetState()
	c := s.Status.CurrentPlayer
	if c < 0 || c >= len(s.Players) {
		return
	}
	p := s.Players[c]
	for _, a := range p.AllowedActions {
		switch a {
		case "bet":
			seen := map[int64]bool{}
			for _, x := range append(betAmounts(s, p, r), badAmounts...) {
				if !seen[x] {
					seen[x] = true
					h.probe(HOp{"Bet", c, x})
				}
			}
		case "raise":
			seen := map[int64]bool{}
			for _, x := range append(raiseAmounts(s, p, r), append(badAmounts, s.Status.CurrentWager-1, s.Status.CurrentWager)...) {
				if !seen[x] {
					seen[x] = true
					h.probe(HOp{"Raise", c, x})
				}
			}
		default:
			h.probe(actionOp(a, c, s, r, false))
		}
	}
}

func playRandom(tw *traceWriter, run int, r *rand.Rand, cfg HCfg, ro randOpts) *hand {
	h := newHand(tw, run, cfg)
	h.watch = ro.watch
	n := len(cfg.Bank)
	st := styles[r.Intn(len(styles))]
	if ro.passive || (ro.bbOnly && r.Intn(3) == 0) || r.Intn(12) == 0 {
		st = style{0, 30, 0, 0} // checked / called down (nearly always) to the river
	}
	if ro.wrongOps && r.Intn(10) == 0 {
		// wrong-phase calls before the hand has started
		h.do(HOp{tableOps[r.Intn(4)], -1, 0})
		h.do(HOp{allActions[r.Intn(5)], r.Intn(n), 0})
	}
	h.do(HOp{"Start", -1, 0})
	raises := 0
	for !h.closed() && h.steps < 5000 {
		s := h.g.GetState()
		if ro.rehydrate > 0 && r.Intn(ro.rehydrate) == 0 {
			h.do(HOp{"Rehydrate", -1, 0})
			s = h.g.GetState()
		}
		if ro.probeRefusals {
			h.probeAll(r)
		}
		if ro.wrongOps && r.Intn(6) == 0 {
			i := r.Intn(n)
			switch r.Intn(8) {
			case 0:
				h.do(HOp{"Fold", i, 0})
			case 1:
				h.do(HOp{"Check", i, 0})
			case 2:
				h.do(HOp{"Raise", i, int64(r.Intn(40)) - 2})
			case 3:
				h.do(HOp{tableOps[r.Intn(4)], -1, 0})
			case 4:
				h.do(HOp{"Pass", i, 0})
			case 5:
				h.do(HOp{"Bet", i, int64(r.Intn(40)) - 2})
			case 6:
				h.do(HOp{"Call", i, 0})
			case 7:
				h.do(HOp{"Allin", i, 0})
			}
			continue
		}
		switch s.Status.CurrentEvent {
		case "ReadyRequested":
			h.do(HOp{"ReadyForAll", -1, 0})
		case "AnteRequested":
			h.do(HOp{"PayAnte", -1, 0})
		case "BlindsRequested":
			h.do(HOp{"PayBlinds", -1, 0})
		case "RoundClosed":
			raises = 0
			h.do(HOp{"Next", -1, 0})
		case "RoundStarted":
			c := s.Status.CurrentPlayer
			if c < 0 || c >= n || len(s.Players[c].AllowedActions) == 0 {
				// nothing is offered: the hand is stuck (a C06 matter); stop driving
				return h
			}
			if ro.forkActions {
				h.forkOffered(r)
			}
			a := chooseAction(r, st, s.Players[c].AllowedActions, raises)
			if a == "bet" || a == "raise" {
				raises++
			}
			op := actionOp(a, c, s, r, ro.wrongOps)
			if ro.wrongOps && (a == "bet" || a == "raise") && r.Intn(12) == 0 {
				op.X = badAmounts[r.Intn(len(badAmounts))]
			}
			h.do(op)
		default:
			return h // not a wait point: stuck (C06)
		}
	}
	if ro.wrongOps && h.closed() {
		// a closed hand accepts nothing
		h.do(HOp{tableOps[r.Intn(4)], -1, 0})
		h.do(HOp{allActions[r.Intn(7)], r.Intn(n), 3})
	}
	return h
}

// ---- subcommands -----------------------------------------------------------------------

func writeScripts(path string, hs []*hand) {
	f, err := os.Create(path)
	if err != nil {
		fatal("create scripts: %v", err)
	}
	w := bufio.NewWriter(f)
	for _, h := range hs {
		b, _ := json.Marshal(h.script)
		w.Write(b)
		w.WriteByte('\n')
	}
	w.Flush()
	f.Close()
}

func cmdHoldemRandom(args []string) {
	fs := flag.NewFlagSet("holdem-random", flag.ExitOnError)
	seed := fs.Int64("seed", 1, "")
	runs := fs.Int("runs", 100, "")
	out := fs.String("o", "trace.ndjson", "")
	scripts := fs.String("scripts", "", "")
	probe := fs.Bool("probe", false, "refusal probes at every state")
	fork := fs.Bool("fork", false, "fork every offered action at every decision point")
	wrong := fs.Bool("wrong", true, "sprinkle out-of-turn / wrong-phase calls")
	rehy := fs.Int("rehydrate", 0, "1 in k steps is a JSON round trip")
	bbOnly := fs.Bool("bbonly", false, "only big-blind-only structures (known finding F6)")
	runBase := fs.Int("runbase", 0, "")
	realShuffle := fs.Bool("realshuffle", false, "keep the engine's own shuffle in every run")
	fullDeck := fs.Bool("fulldeck", false, "configurations that consume the whole deck when played to the river")
	watch := fs.Bool("watch", false, "record a call that never returns (HANG) with the state it started from")
	noBB := fs.Bool("nobb", false, "layouts in which no seat holds the big blind")
	oddRoles := fs.Bool("oddroles", false, "unusual layouts the engine accepts: small and big blind on any seats, also the dealer's")
	fs.Parse(args)
	tw := newTraceWriter(*out)
	r := rand.New(rand.NewSource(*seed))
	hs := []*hand{}
	steps, stuck := 0, 0
	for i := 0; i < *runs; i++ {
		cfg := genCfg(r, *bbOnly)
		if *realShuffle {
			cfg.Deck = nil
		}
		if *noBB {
			// the engine accepts any layout with a dealer: nobody holds the big blind (half of the time nobody the small blind
			// either) - e.g. a button-blind game in which only the dealer is named
			dropSB := r.Intn(2) == 0
			for k, ps := range cfg.Pos {
				keep := []string{}
				for _, x := range ps {
					if x == "bb" || (dropSB && x == "sb") {
						continue
					}
					keep = append(keep, x)
				}
				cfg.Pos[k] = keep
			}
		}
		if *oddRoles {
			// one dealer; the small blind (one time in four: nobody) and the big blind on seats drawn independently - the dealer may
			// hold the big blind (seeded change R5l-A: a heads-up shortcut wrong only when the dealer is the big blind), one seat both blinds
			n := len(cfg.Pos)
			d, sbS, bbS := r.Intn(n), r.Intn(n), r.Intn(n)
			if r.Intn(4) == 0 {
				sbS = -1
			}
			for k := range cfg.Pos {
				ps := []string{}
				if k == d {
					ps = append(ps, "dealer")
				}
				if k == sbS {
					ps = append(ps, "sb")
				}
				if k == bbS {
					ps = append(ps, "bb")
				}
				cfg.Pos[k] = ps
			}
		}
		if driverStop {
			break
		}
		if *fullDeck {
			// seats x hole cards + 3 burns + 5 board cards = the whole deck (or one card less)
			type fd struct {
				short    bool
				holeN, n int
			}
			opts := []fd{{true, 4, 7}, {true, 2, 14}, {false, 4, 11}, {false, 2, 22}, {true, 2, 13}, {false, 4, 10}}
			c := opts[r.Intn(len(opts))]
			cfg.HoleN, cfg.ReqHole = c.holeN, 0
			if c.holeN == 4 {
				cfg.ReqHole = 2
			}
			cfg.DeckKind, cfg.Ranking = "std", "standard"
			base := pf.NewStandardDeckCards()
			if c.short {
				cfg.DeckKind, cfg.Ranking = "short", "short"
				base = pf.NewShortDeckCards()
			}
			cfg.Deck = shuffled(r, base)
			cfg.Pos = rolePositions(c.n, r.Intn(c.n), false)
			cfg.Bank = nil
			for k := 0; k < c.n; k++ {
				cfg.Bank = append(cfg.Bank, 500+r.Int63n(500))
			}
		}
		ro := randOpts{probeRefusals: *probe, forkActions: *fork, wrongOps: *wrong, rehydrate: *rehy, bbOnly: *bbOnly, passive: *fullDeck, watch: *watch || *noBB || *oddRoles, noBB: *noBB}
		h := playRandom(tw, *runBase+i, r, cfg, ro)
		steps += h.steps
		if !h.closed() {
			stuck++
		}
		hs = append(hs, h)
	}
	tw.close()
	if *scripts != "" {
		writeScripts(*scripts, hs)
	}
	b, _ := json.Marshal(M{"runs": *runs, "steps": steps, "lines": tw.lines, "notClosed": stuck})
	fmt.Println(string(b))
}

func readScripts(path string) []HScript {
	f, err := os.Open(path)
	if err != nil {
		fatal("open scripts: %v", err)
	}
	defer f.Close()
	var res []HScript
	sc := bufio.NewScanner(f)
	sc.Buffer(make([]byte, 1<<20), 1<<26)
	for sc.Scan() {
		if len(sc.Bytes()) == 0 {
			continue
		}
		var s HScript
		if err := json.Unmarshal(sc.Bytes(), &s); err != nil {
			fatal("bad script line: %v", err)
		}
		res = append(res, s)
	}
	return res
}

// replayScript replays the ops of a script; when `finish` is set and the script ends before
// the hand is closed, the run is finished with seeded choices among the offered actions.
func replayScript(tw *traceWriter, s HScript, finish bool, r *rand.Rand) *hand {
	h := newHand(tw, s.Run, s.Cfg)
	h.watch = true // a script is short: a call that never returns is recorded with the state it started from
	for _, op := range s.Ops {
		if strings.HasPrefix(op.Op, "?") {
			h.probe(HOp{op.Op[1:], op.Seat, op.X})
			continue
		}
		h.do(op)
	}
	h.script.Note = s.Note
	if finish {
		for !h.closed() && h.steps < 5000 {
			st := h.g.GetState()
			switch st.Status.CurrentEvent {
			case "":
				h.do(HOp{"Start", -1, 0})
				if h.g.GetState().Status.CurrentEvent == "" {
					return h
				}
			case "ReadyRequested":
				h.do(HOp{"ReadyForAll", -1, 0})
			case "AnteRequested":
				h.do(HOp{"PayAnte", -1, 0})
			case "BlindsRequested":
				h.do(HOp{"PayBlinds", -1, 0})
			case "RoundClosed":
				h.do(HOp{"Next", -1, 0})
			case "RoundStarted":
				c := st.Status.CurrentPlayer
				if c < 0 || c >= len(st.Players) || len(st.Players[c].AllowedActions) == 0 {
					return h
				}
				a := chooseAction(r, styles[2], st.Players[c].AllowedActions, 99)
				h.do(actionOp(a, c, st, r, false))
			default:
				return h
			}
		}
	}
	return h
}

func cmdHoldemReplay(args []string) {
	fs := flag.NewFlagSet("holdem-replay", flag.ExitOnError)
	in := fs.String("scripts", "", "")
	out := fs.String("o", "trace.ndjson", "")
	outScripts := fs.String("out-scripts", "", "")
	finish := fs.Bool("finish", false, "finish unfinished hands with seeded choices")
	only := fs.Int("run", -1, "replay only this run id")
	upto := fs.Int("upto", -1, "replay only the first k ops")
	seed := fs.Int64("seed", 1, "")
	fs.Parse(args)
	tw := newTraceWriter(*out)
	r := rand.New(rand.NewSource(*seed))
	hs := []*hand{}
	steps := 0
	for _, s := range readScripts(*in) {
		if *only >= 0 && s.Run != *only {
			continue
		}
		if *upto >= 0 && len(s.Ops) > *upto {
			s.Ops = s.Ops[:*upto]
		}
		h := replayScript(tw, s, *finish, r)
		steps += h.steps
		hs = append(hs, h)
	}
	tw.close()
	if *outScripts != "" {
		writeScripts(*outScripts, hs)
	}
	b, _ := json.Marshal(M{"runs": len(hs), "steps": steps, "lines": tw.lines})
	fmt.Println(string(b))
}

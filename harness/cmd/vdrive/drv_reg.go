//go:build verif

package main

// Drivers for regulator.Regulator (C09, C19, C20) with an environment of tables that follow its
// instructions.  The waiting queue and the regulator's bookkeeping are read through the verif
// snapshot hook (regulator.VerifSnapshot).
//   reg-random : seeded random tournaments over many (max, min) settings: registrations in batches,
//                status changes, syncs with eliminations in any table order, delayed releases,
//                calls naming unknown tables, registrations after the deadline, settle episodes
//   reg-sweep  : for every 2 <= min <= max <= 10 and every registrant count up to 6*max: register in one
//                batch / one by one / random batches, start, then top up (C19)
//   reg-replay : scripts (TLC-generated or recorded)

import (
	"encoding/json"
	"flag"
	"fmt"
	"math/rand"
	"sort"

	"github.com/weedbox/pokerface/regulator"
)

type ROp struct {
	Op     string `json:"op"` // Add | Status | Sync | Release | SyncUnknown | SyncStray | ReleaseStray | Settle
	N      int    `json:"n"`  // Add: batch size; Status: new status; Sync: eliminations; Settle: order seed
	T      int    `json:"t"`  // table id
	Settle string `json:"settle,omitempty"`
}

type RScript struct {
	Run    int   `json:"run"`
	Max    int   `json:"max"`
	Min    int   `json:"min"`
	Sorted bool  `json:"sorted,omitempty"` // reg-explore: the lowest-numbered members are eliminated / released; the last call follows a reset line
	Ops    []ROp `json:"ops"`
}

type regEnv struct {
	o       *potsOut
	run     int
	max     int
	min     int
	r       regulator.Regulator
	calls   []M
	member  map[int][]int
	pend    map[int]int
	gone    []int
	elim    []int
	nextTbl int
	nreg    int
	status  int
	script  RScript
	mute    bool
	dead    bool // a call panicked: the run ends there
}

// guard runs one call on the real regulator; a panic is recorded as the call's error and ends the run
// (the regulator unlocks its mutex in deferred calls, so the snapshot hook still works afterwards)
func (e *regEnv) guard(f func() error) (err error) {
	defer func() {
		if r := recover(); r != nil {
			e.dead = true
			err = fmt.Errorf("PANIC: %v", r)
		}
	}()
	return f()
}

func pname(p int) string { return fmt.Sprintf("p%d", p) }
func tname(t int) string { return fmt.Sprintf("t%d", t) }
func pnum(s string) int {
	var x int
	fmt.Sscanf(s, "p%d", &x)
	return x
}
func tnum(s string) int {
	var x int
	if _, err := fmt.Sscanf(s, "t%d", &x); err != nil {
		return -1
	}
	return x
}
func pnums(ss []string) []int {
	r := []int{}
	for _, s := range ss {
		r = append(r, pnum(s))
	}
	return r
}
func pnames(ps []int) []string {
	r := []string{}
	for _, p := range ps {
		r = append(r, pname(p))
	}
	return r
}

func newRegEnv(o *potsOut, run, max, min int) *regEnv {
	e := &regEnv{o: o, run: run, max: max, min: min, member: map[int][]int{}, pend: map[int]int{}, script: RScript{Run: run, Max: max, Min: min}}
	e.r = regulator.NewRegulator(regulator.MaxPlayersPerTable(max), regulator.MinInitialPlayers(min),
		regulator.WithRequestTableFn(func(ps []string) (string, error) {
			e.nextTbl++
			id := e.nextTbl
			e.member[id] = append(e.member[id], pnums(ps)...)
			e.calls = append(e.calls, M{"kind": "request", "id": id, "players": pnums(ps)})
			return tname(id), nil
		}),
		regulator.WithAssignPlayersFn(func(t string, ps []string) error {
			id := tnum(t)
			e.member[id] = append(e.member[id], pnums(ps)...)
			e.calls = append(e.calls, M{"kind": "assign", "id": id, "players": pnums(ps)})
			return nil
		}))
	e.emit("reset", "new", -1, 0, nil, "", 0, nil, "")
	return e
}

func sortedKeys(m map[int][]int) []int {
	ids := []int{}
	for id := range m {
		ids = append(ids, id)
	}
	sort.Ints(ids)
	return ids
}

func (e *regEnv) emit(kind, op string, id, out int, players []int, err string, release int, handed []int, settle string) {
	if e.mute {
		e.calls = nil
		return
	}
	snap := regulator.VerifSnapshot(e.r)
	tables := []M{}
	tids := []int{}
	for k := range snap.Tables {
		tids = append(tids, tnum(k))
	}
	sort.Ints(tids)
	for _, t := range tids {
		tb := snap.Tables[tname(t)]
		tables = append(tables, M{"id": t, "count": tb.PlayerCount, "required": tb.Required})
	}
	st := M{"max": e.max, "min": e.min, "status": snap.Status, "pc": snap.PlayerCount, "tc": snap.TableCount, "tables": tables, "queue": pnums(snap.WaitingQueue)}
	mem := []M{}
	for _, t := range sortedKeys(e.member) {
		mem = append(mem, M{"id": t, "players": append([]int{}, e.member[t]...)})
	}
	pend := []M{}
	pk := []int{}
	for t := range e.pend {
		pk = append(pk, t)
	}
	sort.Ints(pk)
	for _, t := range pk {
		pend = append(pend, M{"id": t, "n": e.pend[t]})
	}
	calls := e.calls
	if calls == nil {
		calls = []M{}
	}
	if players == nil {
		players = []int{}
	}
	if handed == nil {
		handed = []int{}
	}
	e.o.write(M{"kind": kind, "reset": kind == "reset", "run": e.run, "op": op, "id": id, "out": out, "players": players, "err": err,
		"release": release, "handed": handed, "calls": calls, "settle": settle,
		"state": st, "member": mem, "pend": pend, "nreg": e.nreg, "elim": append([]int{}, e.elim...), "gone": append([]int{}, e.gone...), "nextId": e.nextTbl + 1})
	e.calls = nil
}

func es(err error) string {
	if err == nil {
		return ""
	}
	return err.Error()
}

func (e *regEnv) add(n int, settle string) {
	e.script.Ops = append(e.script.Ops, ROp{Op: "Add", N: n, Settle: settle})
	ps := []int{}
	for i := 0; i < n; i++ {
		ps = append(ps, e.nreg+1+i)
	}
	if e.dead {
		return
	}
	err := e.guard(func() error { return e.r.AddPlayers(pnames(ps)) })
	if err == nil {
		e.nreg += n
	}
	e.emit("main", "AddPlayers", -1, 0, ps, es(err), 0, nil, settle)
}

func (e *regEnv) setStatus(s int) {
	e.script.Ops = append(e.script.Ops, ROp{Op: "Status", N: s})
	if e.dead {
		return
	}
	err := e.guard(func() error { e.r.SetStatus(regulator.CompetitionStatus(s)); return nil })
	e.status = s
	e.emit("main", "SetStatus", -1, s, nil, es(err), 0, nil, "")
}

// sync: the table first eliminates `out` of its members, then reports; received players sit down at once;
// players to release stay until release() is called (the table has not yet carried out the instruction)
func (e *regEnv) sync(t, out int, settle string) (release int, handed []int, quiet bool) {
	if e.dead {
		return 0, nil, false
	}
	e.script.Ops = append(e.script.Ops, ROp{Op: "Sync", T: t, N: out, Settle: settle})
	if _, pending := e.pend[t]; pending {
		// a table carries out the instruction it was given before it reports again
		e.release(t, settle)
		e.script.Ops = e.script.Ops[:len(e.script.Ops)-1] // the release is implied by the Sync op when replayed
	}
	mem, known := e.member[t]
	if !known {
		// an unknown (or broken and gone) table: refusal probe - also with a number of eliminations, which a table
		// that does not exist cannot have had (nobody is eliminated in the environment)
		var rel int
		var np []string
		err := e.guard(func() (err error) { rel, np, err = e.r.SyncState(tname(t), out); return })
		e.emit("main", "SyncState", t, out, nil, es(err), rel, pnums(np), settle)
		return 0, nil, false
	}
	if out > len(mem) {
		out = len(mem)
	}
	e.elim = append(e.elim, mem[:out]...)
	e.member[t] = append([]int{}, mem[out:]...)
	var rel int
	var np []string
	err := e.guard(func() (err error) { rel, np, err = e.r.SyncState(tname(t), out); return })
	if err == nil {
		e.member[t] = append(e.member[t], pnums(np)...)
		broken := e.r.GetTable(tname(t)) == nil
		if rel > 0 || broken {
			e.pend[t] = rel
		}
		quiet = rel == 0 && len(np) == 0 && !broken
	}
	e.emit("main", "SyncState", t, out, nil, es(err), rel, pnums(np), settle)
	return rel, pnums(np), quiet
}

// syncStray: a call naming a table the regulator no longer knows - one that was told to break, whether or not it has
// handed its players back yet.  Nothing happens in the environment; the call must be refused without any effect.
func (e *regEnv) syncStray(t, out int) {
	if e.dead || e.r.GetTable(tname(t)) != nil {
		return
	}
	e.script.Ops = append(e.script.Ops, ROp{Op: "SyncStray", T: t, N: out})
	var rel int
	var np []string
	err := e.guard(func() (err error) { rel, np, err = e.r.SyncState(tname(t), out); return })
	e.emit("main", "SyncState", t, out, nil, es(err), rel, pnums(np), "")
}

// releaseStray: ReleasePlayers naming a table nobody sits at, with nobody to hand back (the regulator accepts any id in this
// call - the break protocol releases the players of a table it has already deleted). Nothing happens at the tables; whatever
// the regulator does in return (seeded change R5b-C: it opens tables before the competition has started) is recorded.
func (e *regEnv) releaseStray(t int) {
	if _, known := e.member[t]; known || e.dead {
		return
	}
	e.script.Ops = append(e.script.Ops, ROp{Op: "ReleaseStray", T: t})
	err := e.guard(func() error { return e.r.ReleasePlayers(tname(t), []string{}) })
	e.emit("main", "ReleasePlayers", t, 0, nil, es(err), 0, nil, "")
}

// strayTables: tables told to break (instruction outstanding or carried out)
func (e *regEnv) strayTables() []int {
	ids := append([]int{}, e.gone...)
	for t := range e.pend {
		if e.r.GetTable(tname(t)) == nil {
			ids = append(ids, t)
		}
	}
	sort.Ints(ids)
	return ids
}

func (e *regEnv) release(t int, settle string) {
	rel, ok := e.pend[t]
	if !ok || e.dead {
		return
	}
	e.script.Ops = append(e.script.Ops, ROp{Op: "Release", T: t, Settle: settle})
	mem := e.member[t]
	if rel > len(mem) {
		rel = len(mem) // cannot release more than are there: what is left shows in the count clauses
	}
	if rel < 0 {
		rel = 0
	}
	released := append([]int{}, mem[:rel]...)
	e.member[t] = append([]int{}, mem[rel:]...)
	broken := e.r.GetTable(tname(t)) == nil
	if broken {
		// a broken table is gone; players it did not hand back are lost (C09/C20 clauses see them)
		delete(e.member, t)
		e.gone = append(e.gone, t)
	}
	delete(e.pend, t)
	err := e.guard(func() error { return e.r.ReleasePlayers(tname(t), pnames(released)) })
	e.emit("main", "ReleasePlayers", t, 0, released, es(err), 0, nil, settle)
}

func (e *regEnv) nop(settle string) {
	if e.dead {
		return
	}
	e.emit("main", "nop", -1, 0, nil, "", 0, nil, settle)
}

func (e *regEnv) liveTables() []int {
	ids := []int{}
	for _, t := range sortedKeys(e.member) {
		if e.r.GetTable(tname(t)) != nil {
			ids = append(ids, t)
		}
	}
	return ids
}

// settle: with no registrations and no eliminations, sweep over all live tables (each synced once, the
// returned instruction carried out before the next sync) until a whole sweep is quiet
func (e *regEnv) settle(r *rand.Rand, capSweeps int) int {
	// outstanding instructions are carried out first
	for _, t := range sortedKeys(e.member) {
		e.release(t, "")
	}
	e.script.Ops = append(e.script.Ops, ROp{Op: "Settle", N: int(r.Int63n(1 << 30))})
	e.emitBegin()
	sweeps := 0
	for {
		sweeps++
		ids := e.liveTables()
		r.Shuffle(len(ids), func(i, j int) { ids[i], ids[j] = ids[j], ids[i] })
		quiet := true
		for _, t := range ids {
			if e.r.GetTable(tname(t)) == nil {
				continue // broken earlier in this sweep
			}
			_, _, q := e.sync(t, 0, "step")
			if !q {
				quiet = false
			}
			if _, p := e.pend[t]; p {
				e.release(t, "step")
			}
		}
		if quiet || sweeps >= capSweeps || e.dead {
			break
		}
		e.nop("sweep")
	}
	e.nop("end")
	return sweeps
}

func (e *regEnv) emitBegin() {
	e.emit("reset", "nop", -1, 0, nil, "", 0, nil, "begin")
}

var regSettings = [][2]int{{9, 6}, {3, 2}, {4, 3}, {6, 5}, {4, 2}, {2, 2}, {5, 3}, {3, 3}, {6, 4}, {8, 5}, {10, 8}, {5, 5}, {7, 2}, {9, 9}}

func randomTournament(o *potsOut, run int, r *rand.Rand, steps int) *regEnv {
	c := regSettings[r.Intn(len(regSettings))]
	e := newRegEnv(o, run, c[0], c[1])
	if r.Intn(4) == 0 {
		// a big field: 5 to 12 tables at once, then scattered eliminations - balancing with many tables
		e.add((5+r.Intn(8))*e.max-r.Intn(e.max), "")
		e.setStatus(1)
		for k := 0; k < 6+r.Intn(10); k++ {
			ids := e.liveTables()
			if len(ids) == 0 {
				break
			}
			t := ids[r.Intn(len(ids))]
			e.sync(t, r.Intn(4), "")
			if r.Intn(3) != 0 {
				e.release(t, "")
			}
		}
		if r.Intn(2) == 0 {
			e.setStatus(2)
		}
		e.settle(r, 14)
	}
	for s := 0; s < steps; s++ {
		k := r.Intn(100)
		switch {
		case k < 22:
			n := 1 + r.Intn(e.max+2)
			if r.Intn(6) == 0 {
				n = 1 + r.Intn(3*e.max)
			}
			e.add(n, "")
		case k < 30:
			st := e.status
			if st < 2 && r.Intn(2) == 0 {
				st++
			}
			e.setStatus(st)
		case k < 34:
			if st := e.strayTables(); len(st) > 0 && r.Intn(2) == 0 {
				e.syncStray(st[r.Intn(len(st))], r.Intn(3)) // a table that was told to break reports again
			} else if r.Intn(3) == 0 {
				e.releaseStray(e.nextTbl + 1 + r.Intn(3)) // nobody handed back by a table nobody sits at
			} else {
				e.sync(e.nextTbl+1+r.Intn(3), r.Intn(3)/2, "") // unknown table
			}
		case k < 70:
			ids := e.liveTables()
			if len(ids) == 0 {
				continue
			}
			t := ids[r.Intn(len(ids))]
			out := 0
			if r.Intn(2) == 0 {
				out = r.Intn(3)
			}
			if r.Intn(12) == 0 {
				out = len(e.member[t])
			}
			e.sync(t, out, "")
			if r.Intn(10) < 7 {
				e.release(t, "")
			}
		case k < 84:
			pk := []int{}
			for t := range e.pend {
				pk = append(pk, t)
			}
			sort.Ints(pk)
			if len(pk) > 0 {
				e.release(pk[r.Intn(len(pk))], "")
			}
		default:
			if e.status >= 1 && len(e.liveTables()) > 0 {
				e.settle(r, 14)
			}
		}
	}
	return e
}

func writeRegScripts(path string, es []*regEnv) {
	if path == "" {
		return
	}
	tw := newTraceWriter(path)
	o := &potsOut{w: tw}
	for _, e := range es {
		b, _ := json.Marshal(e.script)
		var m M
		json.Unmarshal(b, &m)
		o.write(m)
	}
	tw.close()
}

func cmdRegRandom(args []string) {
	fs := flag.NewFlagSet("reg-random", flag.ExitOnError)
	out := fs.String("o", "reg.ndjson", "")
	scripts := fs.String("scripts", "", "")
	runs := fs.Int("runs", 200, "")
	steps := fs.Int("steps", 45, "")
	seed := fs.Int64("seed", 1, "")
	fs.Parse(args)
	r := rand.New(rand.NewSource(*seed))
	tw := newTraceWriter(*out)
	o := &potsOut{w: tw}
	var all []*regEnv
	for i := 0; i < *runs; i++ {
		all = append(all, randomTournament(o, i, r, *steps))
	}
	tw.close()
	writeRegScripts(*scripts, all)
	b, _ := json.Marshal(M{"runs": *runs, "lines": o.lines})
	fmt.Println(string(b))
}

func replayReg(o *potsOut, s RScript) *regEnv {
	if s.Sorted {
		return replayRegExplored(o, s)
	}
	e := newRegEnv(o, s.Run, s.Max, s.Min)
	for _, op := range s.Ops {
		switch op.Op {
		case "Add":
			e.add(op.N, "")
		case "Status":
			e.setStatus(op.N)
		case "Sync":
			if op.Settle != "" {
				continue // the steps of a settle episode are re-generated by the Settle op
			}
			e.sync(op.T, op.N, "")
		case "Release":
			if op.Settle != "" {
				continue
			}
			e.release(op.T, "")
		case "SyncStray":
			e.syncStray(op.T, op.N)
		case "ReleaseStray":
			e.releaseStray(op.T)
		case "Settle":
			e.settle(rand.New(rand.NewSource(int64(op.N))), 14)
		}
	}
	return e
}

func cmdRegReplay(args []string) {
	fs := flag.NewFlagSet("reg-replay", flag.ExitOnError)
	in := fs.String("scripts", "", "")
	out := fs.String("o", "reg.ndjson", "")
	outScripts := fs.String("out-scripts", "", "")
	only := fs.Int("run", -1, "")
	repeat := fs.Int("repeat", 1, "replay each script this many times (map-iteration nondeterminism of the code)")
	fs.Parse(args)
	tw := newTraceWriter(*out)
	o := &potsOut{w: tw}
	var all []*regEnv
	for _, raw := range readNDJSON(*in) {
		var s RScript
		if err := json.Unmarshal(raw, &s); err != nil {
			fatal("bad script: %v", err)
		}
		if *only >= 0 && s.Run != *only {
			continue
		}
		for k := 0; k < *repeat; k++ {
			all = append(all, replayReg(o, s))
		}
	}
	tw.close()
	writeRegScripts(*outScripts, all)
	b, _ := json.Marshal(M{"runs": len(all), "lines": o.lines})
	fmt.Println(string(b))
}

func cmdRegSweep(args []string) {
	fs := flag.NewFlagSet("reg-sweep", flag.ExitOnError)
	out := fs.String("o", "regsweep.ndjson", "")
	scripts := fs.String("scripts", "", "")
	maxMax := fs.Int("maxmax", 10, "")
	stride := fs.Int("stride", 1, "take every k-th registrant count")
	seed := fs.Int64("seed", 1, "")
	fs.Parse(args)
	r := rand.New(rand.NewSource(*seed))
	tw := newTraceWriter(*out)
	o := &potsOut{w: tw}
	var all []*regEnv
	run := 0
	for mx := 2; mx <= *maxMax; mx++ {
		for mn := 2; mn <= mx; mn++ {
			for n := 1; n <= 6*mx; n += *stride {
				for mode := 0; mode < 3; mode++ {
					e := newRegEnv(o, run, mx, mn)
					run++
					startFirst := r.Intn(2) == 0 && mode != 0
					if startFirst {
						e.setStatus(1)
					}
					switch mode {
					case 0:
						e.add(n, "")
					case 1:
						for i := 0; i < n; i++ {
							e.add(1, "")
						}
					case 2:
						left := n
						for left > 0 {
							k := 1 + r.Intn(mx+1)
							if k > left {
								k = left
							}
							e.add(k, "")
							left -= k
						}
					}
					if !startFirst {
						e.setStatus(1)
					}
					// top up
					e.add(1+r.Intn(mx), "")
					if r.Intn(2) == 0 {
						for _, t := range e.liveTables() {
							e.sync(t, 0, "")
							e.release(t, "")
						}
						e.add(1+r.Intn(2*mx), "")
					}
					all = append(all, e)
				}
			}
		}
	}
	tw.close()
	writeRegScripts(*scripts, all)
	b, _ := json.Marshal(M{"runs": len(all), "lines": o.lines})
	fmt.Println(string(b))
}

func init() {
	commands["reg-random"] = cmdRegRandom
	commands["reg-replay"] = cmdRegReplay
	commands["reg-sweep"] = cmdRegSweep
}

//go:build verif

package main

// table-random: a TABLE (table/table.go + table/internal.go) over several hands.  Players join and sit
// in, the table runs its hand loop on its own goroutines (seat manager -> positions -> a new table game
// per hand through the stateless backend -> settlement -> bankrolls, busted players reserved or removed ->
// next hand) and the driver plays every hand by player id, now and then changing the seating between two
// actions (a new player, somebody sitting out or coming back, somebody leaving).
// The table is asynchronous and calls its state callback under its own write lock (a callback that
// calls back into the table deadlocks - the repository's own table tests do): the callback only queues
// the state, and the driver waits after each call for the state at which the table waits for a
// player again, or is closed (generous timeout; a missing state is recorded as stuck, never guessed).
// One line per call: the table (status, hand counter, players, seat manager, game state) at rest.

import (
	"encoding/json"
	"flag"
	"fmt"
	"math/rand"
	"runtime"
	"sort"
	"strconv"
	"strings"
	"time"

	pf "github.com/weedbox/pokerface"
	"github.com/weedbox/pokerface/competition"
	"github.com/weedbox/pokerface/match"
	sm "github.com/weedbox/pokerface/seat_manager"
	"github.com/weedbox/pokerface/table"
)

// The MIRROR: in a competition the table manager (competition/table_manager.go) turns every table state into seat
// changes (who left; where dealer, small blind and big blind sit) and match.Table (match/table.go) applies them to
// its own seat manager, which the dispatcher uses to find free seats.  The driver runs both next to the real table:
// every state at rest goes through TableManager.UpdateTableState, the seat changes it reports go to
// match.Table.ApplySeatChanges, joins are mirrored with match.Table.Join.
type fakeTableBackend struct{ ts *table.State }

func (f *fakeTableBackend) CreateTable(o *table.Options) (*table.State, error) { return f.ts, nil }
func (f *fakeTableBackend) ActivateTable(string) error                         { return nil }
func (f *fakeTableBackend) SetJoinable(string, bool) error                     { return nil }
func (f *fakeTableBackend) ReleaseTable(string) error                          { return nil }
func (f *fakeTableBackend) ReserveSeat(string, int, *competition.PlayerInfo) (int, error) {
	return -1, nil
}
func (f *fakeTableBackend) OnTableUpdated(func(*table.State)) {}

func projMirror(m *sm.SeatManager) M {
	pj := projSeat(m)
	for i, s := range pj["seat"].([]M) {
		if st := m.GetSeat(i); st != nil && st.Player != nil {
			if v, ok := st.Player.(string); ok {
				s["player"] = pidOf(v)
			}
		}
	}
	return pj
}

func pidOf(id string) int {
	n, err := strconv.Atoi(id)
	if err != nil {
		return 999999
	}
	return n
}

func projTableSM(m *sm.SeatManager) M {
	max := m.GetSeatCount()
	seats := []M{}
	for i := 0; i < max; i++ {
		s := m.GetSeat(i)
		if s == nil {
			seats = append(seats, M{"player": -1, "active": false, "reserved": false, "missing": true})
			continue
		}
		p := -1
		if s.Player != nil {
			p = 999999
			if pi, ok := s.Player.(*table.PlayerInfo); ok && pi != nil {
				p = pidOf(pi.ID)
			}
		}
		seats = append(seats, M{"player": p, "active": s.IsActive, "reserved": s.IsReserved})
	}
	id := func(s *sm.Seat) int {
		if s == nil {
			return -1
		}
		return s.ID
	}
	return M{"max": max, "seat": seats, "dealer": id(m.Dealer()), "sb": id(m.SmallBlind()), "bb": id(m.BigBlind())}
}

type tblRun struct {
	o     *potsOut
	run   int
	t     table.Table
	ch    chan *table.State
	cur   *table.State
	stuck bool
	opts  *table.Options
	// the game state with which the last hand closed, seen while waiting for the table to rest (nil: no hand closed during the call)
	closed *pf.GameState
	// the mirror
	tm     competition.TableManager
	mt     *match.Table
	lastSC *match.SeatChanges
	ems    []M // every state the table emitted since the last line, as the table manager saw it, with the seat changes it reported
}

// feed: one emitted table state goes through the table manager (competition.TableManager.UpdateTableState), which
// reports seat changes to the mirror (match.Table.ApplySeatChanges)
func (tr *tblRun) feed(ts *table.State) {
	tr.lastSC = nil
	res := ""
	func() {
		defer func() {
			if rec := recover(); rec != nil {
				res = "PANIC"
			}
		}()
		if err := tr.tm.UpdateTableState(ts); err != nil {
			res = err.Error()
		}
	}()
	seats := []int{}
	for s := range ts.Players {
		seats = append(seats, s)
	}
	sort.Ints(seats)
	pl := []M{}
	for _, s := range seats {
		p := ts.Players[s]
		pos := append([]string{}, p.Positions...)
		sort.Strings(pos)
		pl = append(pl, M{"seat": p.SeatID, "id": pidOf(p.ID), "pos": pos})
	}
	sc := M{"has": tr.lastSC != nil, "dealer": -1, "sb": -1, "bb": -1, "left": []int{}}
	if tr.lastSC != nil {
		left := []int{}
		for s, st := range tr.lastSC.Seats {
			if st == "left" {
				left = append(left, s)
			}
		}
		sort.Ints(left)
		sc["dealer"], sc["sb"], sc["bb"], sc["left"] = tr.lastSC.Dealer, tr.lastSC.SB, tr.lastSC.BB, left
	}
	tr.ems = append(tr.ems, M{"hasG": ts.GameState != nil, "players": pl, "sc": sc, "res": res})
}

func (tr *tblRun) project() M {
	ts := tr.t.GetState().Clone()
	tr.cur = ts
	seats := []int{}
	for s := range ts.Players {
		seats = append(seats, s)
	}
	sort.Ints(seats)
	pl := []M{}
	for _, s := range seats {
		p := ts.Players[s]
		pos := append([]string{}, p.Positions...)
		sort.Strings(pos)
		pl = append(pl, M{"seat": s, "seatID": p.SeatID, "id": pidOf(p.ID), "gidx": p.GameIdx, "pos": pos, "playable": p.Playable, "bank": clip(p.Bankroll)})
	}
	out := M{"status": ts.Status, "count": tr.t.GetGameCount(), "players": pl, "sm": projTableSM(table.VerifSeatManager(tr.t)),
		"hasG": ts.GameState != nil, "G": M{}, "deck": []int{}}
	if ts.GameState != nil {
		out["G"] = projHoldem(ts.GameState)
		out["deck"] = cards(ts.GameState.Meta.Deck)
	}
	if tr.ems == nil {
		tr.ems = []M{}
	}
	out["ems"] = tr.ems
	tr.ems = nil
	out["mirror"] = projMirror(tr.mt.SeatManager())
	out["hasClosed"] = tr.closed != nil
	out["closedG"] = M{}
	out["closedDeck"] = []int{}
	if tr.closed != nil {
		out["closedG"] = projHoldem(tr.closed)
		out["closedDeck"] = cards(tr.closed.Meta.Deck)
		tr.closed = nil
	}
	return out
}

func (tr *tblRun) emit(kind, op string, seat, id int, x int64, err error) {
	tr.emitWith(kind, op, seat, id, x, err, nil)
}

func (tr *tblRun) emitWith(kind, op string, seat, id int, x int64, err error, extra M) {
	o := tr.opts
	ln := M{"kind": kind, "reset": kind == "reset", "run": tr.run, "op": op, "seat": seat, "id": id, "x": clip(x), "err": errStr(err),
		"stuck": tr.stuck, "T": tr.project(),
		"opt": M{"maxSeats": o.MaxSeats, "maxGames": o.MaxGames, "initial": o.InitialPlayers, "min": o.MinPlayers, "joinable": o.Joinable,
			"elim": o.EliminateMode, "ante": o.Ante, "dealerBlind": o.Blind.Dealer, "sb": o.Blind.SB, "bb": o.Blind.BB}}
	for k, v := range extra {
		ln[k] = v
	}
	tr.o.write(ln)
}

// drain: forget the states queued so far (the callbacks of Join / Leave run inside the call)
func (tr *tblRun) drain() {
	for {
		select {
		case ts := <-tr.ch:
			tr.feed(ts)
		default:
			return
		}
	}
}

// loopParked: the table loop goroutine waits at the top of its loop for the next game request (an idle table), or has
// returned.  Read off the goroutine dump: its top frame is tableLoop itself and it is blocked receiving from a channel
// (while a hand is running the loop is blocked inside startGame instead).
func loopParked() bool {
	buf := make([]byte, 1<<20)
	n := runtime.Stack(buf, true)
	for _, g := range strings.Split(string(buf[:n]), "\n\n") {
		if !strings.Contains(g, "table.(*table).tableLoop") {
			continue
		}
		lines := strings.Split(g, "\n")
		if len(lines) < 2 {
			return false
		}
		return strings.Contains(lines[0], "chan receive") && strings.HasPrefix(lines[1], "github.com/weedbox/pokerface/table.(*table).tableLoop")
	}
	return true
}

// settle: wait for the state at which the table waits for a player again, or is closed, or - a table that waits for
// more players says nothing - until its loop is parked with nothing queued
func (tr *tblRun) settle() {
	deadline := time.Now().Add(30 * time.Second)
	parked := 0
	for {
		select {
		case ts := <-tr.ch:
			parked = 0
			tr.feed(ts)
			if ts.Status == "closed" {
				tr.rest()
				return
			}
			if ts.GameState != nil {
				ev := ts.GameState.Status.CurrentEvent
				if ev == "GameClosed" {
					tr.closed = ts.GameState
				}
				if ev == "ReadyRequested" || ev == "AnteRequested" || ev == "BlindsRequested" || ev == "RoundStarted" {
					tr.rest()
					return
				}
			}
		case <-time.After(time.Millisecond):
			if loopParked() && len(tr.ch) == 0 {
				parked++
				if parked >= 3 {
					return
				}
			} else {
				parked = 0
			}
			if time.Now().After(deadline) {
				tr.stuck = true
				return
			}
		}
	}
}

// rest: the hand counter and the status are written by the table loop right after the game was started
// (no lock, no callback): give that goroutine the moment it needs before the table is read
func (tr *tblRun) rest() {
	for k := 0; k < 200; k++ {
		st := tr.t.GetState().Status
		if st == "playing" || st == "closed" || st == "idle" {
			break
		}
		time.Sleep(time.Millisecond)
	}
	time.Sleep(2 * time.Millisecond)
	tr.drain()
}

func tableRun(o *potsOut, run int, r *rand.Rand) (wasStuck bool) {
	opts := table.NewOptions()
	opts.MaxSeats = 2 + r.Intn(5)
	opts.MaxGames = 2 + r.Intn(5)
	opts.Joinable = r.Intn(3) == 0 // a joinable table waits (idle) for more players instead of closing
	opts.Interval = 0
	opts.Duration = 3600 * 24
	if r.Intn(3) == 0 {
		opts.EliminateMode = "leave"
	}
	if r.Intn(4) == 0 {
		opts.GameType = "short_deck"
	}
	opts.Ante = []int64{0, 0, 1, 2}[r.Intn(4)]
	bl := [][3]int64{{0, 1, 2}, {0, 5, 10}, {0, 2, 4}, {1, 1, 2}, {0, 0, 2}}[r.Intn(5)]
	opts.Blind = pf.BlindSetting{Dealer: bl[0], SB: bl[1], BB: bl[2]}
	t := table.NewTable(opts, table.WithBackend(table.NewNativeBackend()))
	tr := &tblRun{o: o, run: run, t: t, ch: make(chan *table.State, 1<<16), opts: opts}
	t.OnStateUpdated(func(ts *table.State) { tr.ch <- ts })
	tr.tm = competition.NewTableManager(competition.NewOptions(), &fakeTableBackend{t.GetState().Clone()})
	tr.tm.CreateTable()
	tr.mt = match.NewTable(opts.MaxSeats)
	tr.tm.OnSeatChanged(func(ts *table.State, sc *match.SeatChanges) {
		tr.lastSC = sc
		tr.mt.ApplySeatChanges(sc)
	})
	defer func() { wasStuck = tr.stuck }()
	tr.emit("reset", "new", -1, -1, 0, nil)
	nextID := 1
	bankOf := func() int64 {
		return []int64{3, 7, 12, 20, 20, 35, 60}[r.Intn(7)]
	}
	started := false
	// Activate: on a running table that waits for players (idle) this may start the hand loop again
	activate := func(seat int) {
		idle := started && t.GetState().Status == "idle"
		e := t.Activate(seat)
		if idle {
			tr.settle()
		}
		tr.emit("main", "T.Activate", seat, -1, 0, e)
	}
	join := func(seat int, sitIn bool) {
		id := nextID
		nextID++
		bank := bankOf()
		got, err := t.Join(seat, &table.PlayerInfo{ID: strconv.Itoa(id), Bankroll: bank})
		if err == nil {
			tr.mt.Join(got, strconv.Itoa(id)) // the mirror learns of the new player the way the dispatcher tells it
		}
		tr.drain()
		tr.emit("main", "T.Join", seat, id, bank, err)
		if err == nil && sitIn {
			activate(got)
		}
	}
	// seating: at least two players sit in; sometimes a further player who has only joined
	n := 2 + r.Intn(opts.MaxSeats-1)
	perm := r.Perm(opts.MaxSeats)
	for i := 0; i < n; i++ {
		join(perm[i], i < 2 || r.Intn(5) != 0)
	}
	if r.Intn(6) == 0 {
		join(perm[0], true) // an occupied seat: refused
	}
	if n > 2 && r.Intn(8) == 0 {
		// somebody leaves before the first hand: the table has no game state yet
		e := t.Leave(perm[n-1])
		tr.drain()
		tr.emit("main", "T.Leave", perm[n-1], -1, 0, e)
	}
	err := t.Start()
	started = true
	tr.settle()
	tr.emit("main", "T.Start", -1, -1, 0, err)
	idleTries := 0
	done := map[int]bool{}
	lastKey := ""
	for steps := 0; steps < 1500 && !tr.stuck; steps++ {
		ts := tr.cur
		if ts.Status == "closed" {
			break
		}
		if ts.Status == "idle" {
			// a joinable table waiting for players: somebody new sits down, somebody with chips comes back - or nobody does
			idleTries++
			if idleTries > 4 {
				break
			}
			if r.Intn(2) == 0 {
				for s := 0; s < opts.MaxSeats; s++ {
					if _, ok := ts.Players[s]; !ok {
						join(s, true)
						break
					}
				}
			} else {
				for s, p := range ts.Players {
					if p.Bankroll > 0 {
						activate(s)
						break
					}
				}
			}
			if tr.cur == ts {
				tr.emit("main", "T.Nop", -1, -1, 0, nil) // nothing could be done: refresh the state, the try counter ends the run
			}
			continue
		}
		if ts.GameState == nil {
			break
		}
		gs := ts.GameState
		ev := gs.Status.CurrentEvent
		if key := gs.GameID + "|" + ev + "|" + gs.Status.Round; key != lastKey {
			lastKey = key
			done = map[int]bool{}
		}
		byIdx := map[int]*table.PlayerInfo{}
		for _, p := range ts.Players {
			if p.GameIdx >= 0 {
				byIdx[p.GameIdx] = p
			}
		}
		hasAllow := func(i int, a string) bool {
			for _, x := range gs.Players[i].AllowedActions {
				if x == a {
					return true
				}
			}
			return false
		}
		// between two actions: the seating changes
		if ev == "RoundStarted" && r.Intn(12) == 0 {
			switch r.Intn(7) {
			case 5: // the next blind level
				k := int64(2 + r.Intn(2))
				d, sb, bb := opts.Blind.Dealer*k, opts.Blind.SB*k, opts.Blind.BB*k
				t.SetBlinds(d, sb, bb)
				tr.emitWith("main", "T.SetBlinds", -1, -1, 0, nil, M{"blinds": []int64{d, sb, bb}})
			case 6: // antes come in / go up
				x := opts.Ante + 1
				t.SetAnte(x)
				tr.emit("main", "T.SetAnte", -1, -1, x, nil)
			case 0, 1: // a new player takes an empty seat (and usually sits in)
				empty := []int{}
				for s := 0; s < opts.MaxSeats; s++ {
					if _, ok := ts.Players[s]; !ok {
						empty = append(empty, s)
					}
				}
				if len(empty) > 0 {
					join(empty[r.Intn(len(empty))], r.Intn(4) != 0)
				}
			case 2: // somebody sits out from the next hand on
				for s := range ts.Players {
					e := t.Reserve(s)
					tr.emit("main", "T.Reserve", s, -1, 0, e)
					break
				}
			case 3: // somebody with chips comes back (a busted player who sat in again would be dealt in with nothing)
				for s, p := range ts.Players {
					if p.Bankroll > 0 {
						activate(s)
						break
					}
				}
			case 4: // somebody who is not in the hand leaves
				for s, p := range ts.Players {
					if p.GameIdx == -1 {
						e := t.Leave(s)
						tr.drain()
						tr.emit("main", "T.Leave", s, -1, 0, e)
						break
					}
				}
			}
			continue
		}
		// now and then a call that must be refused
		if r.Intn(15) == 0 {
			switch r.Intn(3) {
			case 0:
				e := t.Check("77777")
				tr.emit("main", "T.Check", -1, 77777, 0, e)
			case 1:
				if ev != "ReadyRequested" && len(byIdx) > 0 {
					p := byIdx[r.Intn(len(byIdx))]
					e := t.Ready(p.ID)
					tr.emit("main", "T.Ready", -1, pidOf(p.ID), 0, e)
				}
			case 2:
				if ev == "RoundStarted" && len(byIdx) > 1 {
					i := (gs.Status.CurrentPlayer + 1) % len(byIdx)
					e := t.Fold(byIdx[i].ID)
					tr.emit("main", "T.Fold", -1, pidOf(byIdx[i].ID), 0, e)
				}
			}
			continue
		}
		switch ev {
		case "ReadyRequested", "AnteRequested", "BlindsRequested":
			want, op := "pay", "T.Pay"
			if ev == "ReadyRequested" {
				want, op = "ready", "T.Ready"
			}
			cands, parts := []int{}, 0
			for i := range gs.Players {
				if hasAllow(i, want) {
					parts++
					if !done[i] {
						cands = append(cands, i)
					}
				}
			}
			if len(cands) == 0 || byIdx[cands[0]] == nil {
				tr.stuck = true
				tr.emit("main", op, -1, -1, 0, nil)
				return
			}
			i := cands[r.Intn(len(cands))]
			p := byIdx[i]
			if p == nil {
				tr.stuck = true
				tr.emit("main", op, -1, -1, 0, nil)
				return
			}
			var e error
			if want == "ready" {
				e = t.Ready(p.ID)
			} else {
				e = t.Pay(p.ID, 0)
			}
			if e == nil {
				done[i] = true
				if len(done) == parts {
					tr.settle()
				}
			}
			tr.emit("main", op, -1, pidOf(p.ID), 0, e)
		case "RoundStarted":
			c := gs.Status.CurrentPlayer
			p := byIdx[c]
			if p == nil {
				tr.stuck = true
				tr.emit("main", "T.?", -1, -1, 0, nil)
				return
			}
			a := chooseAction(r, styles[r.Intn(len(styles))], gs.Players[c].AllowedActions, 3)
			hop := actionOp(a, c, gs, r, false)
			var e error
			switch hop.Op {
			case "Pass":
				e = t.Pass(p.ID)
			case "Fold":
				e = t.Fold(p.ID)
			case "Check":
				e = t.Check(p.ID)
			case "Call":
				e = t.Call(p.ID)
			case "Allin":
				e = t.Allin(p.ID)
			case "Bet":
				e = t.Bet(p.ID, hop.X)
			case "Raise":
				e = t.Raise(p.ID, hop.X)
			}
			if e == nil {
				tr.settle()
			}
			tr.emit("main", "T."+hop.Op, -1, pidOf(p.ID), hop.X, e)
		default:
			tr.stuck = true
			tr.emit("main", "T.?", -1, -1, 0, nil)
			return
		}
	}
	defer func() {
		defer func() { recover() }()
		if t.GetState().Status != "closed" {
			t.Close()
		}
	}()
	// a closed table: calls change nothing any more
	if !tr.stuck && tr.cur.Status == "closed" {
		for _, p := range tr.cur.Players {
			e := t.Ready(p.ID)
			tr.emit("main", "T.Ready", -1, pidOf(p.ID), 0, e)
			break
		}
	}
	return
}

func cmdTableRandom(args []string) {
	fs := flag.NewFlagSet("table-random", flag.ExitOnError)
	out := fs.String("o", "table.ndjson", "")
	runs := fs.Int("runs", 50, "")
	seed := fs.Int64("seed", 1, "")
	fs.Parse(args)
	r := rand.New(rand.NewSource(*seed))
	tw := newTraceWriter(*out)
	o := &potsOut{w: tw}
	stuckRuns := 0
	for i := 0; i < *runs; i++ {
		if tableRun(o, i, r) {
			stuckRuns++
			if stuckRuns >= 3 {
				break
			}
		}
	}
	tw.close()
	b, _ := json.Marshal(M{"runs": *runs, "lines": o.lines, "stuckRuns": stuckRuns})
	fmt.Println(string(b))
}

func init() {
	commands["table-random"] = cmdTableRandom
}

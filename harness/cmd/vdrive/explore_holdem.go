package main

// holdem-explore: enumerates the IMPLEMENTATION's own reachable state graph of one hand in
// a small scope (every seat x every action x every amount of the alphabet at every state,
// forking by JSON clone + NewGameFromState) and records every transition for TLC:
//
//     reset(s)  probe(op1 -> t1)  probe(op2 -> t2) ...        (one group per state s)
//
// The number of distinct states under the card-free comparison view is reported so that it
// can be compared with TLC's count for the model in the same scope (DESIGN.md 3.2).

import (
	"crypto/sha1"
	"encoding/json"
	"flag"
	"fmt"
	"sort"
	"strconv"
	"strings"
	"sync"

	pf "github.com/weedbox/pokerface"
)

// view: the projected state without cards, evaluations, result amounts, last action, did, vpip
func viewKey(gs *pf.GameState) [20]byte {
	m := projHoldem(gs)
	delete(m, "last")
	m["result"] = gs.Result != nil
	m["board"] = len(gs.Status.Board)
	m["burned"] = len(gs.Status.Burned)
	for _, p := range m["P"].([]M) {
		delete(p, "did")
		delete(p, "vpip")
		delete(p, "comb")
		p["hole"] = len(p["hole"].([]int))
	}
	b, _ := json.Marshal(m)
	return sha1.Sum(b)
}

func parseInts(s string) []int64 {
	var r []int64
	for _, f := range strings.Split(s, ",") {
		f = strings.TrimSpace(f)
		if f == "" {
			continue
		}
		if strings.Contains(f, "..") {
			ab := strings.SplitN(f, "..", 2)
			a, _ := strconv.ParseInt(ab[0], 10, 64)
			b, _ := strconv.ParseInt(ab[1], 10, 64)
			for x := a; x <= b; x++ {
				r = append(r, x)
			}
			continue
		}
		x, err := strconv.ParseInt(f, 10, 64)
		if err != nil {
			fatal("bad int list %q", s)
		}
		r = append(r, x)
	}
	return r
}

// "0,0,1,2;1,0,1,2" -> structures (ante, dealer, sb, bb)
func parseStructs(s string) [][4]int64 {
	var r [][4]int64
	for _, part := range strings.Split(s, ";") {
		v := parseInts(part)
		if len(v) != 4 {
			fatal("bad structure %q", part)
		}
		r = append(r, [4]int64{v[0], v[1], v[2], v[3]})
	}
	return r
}

type exploreStats struct {
	configs, states, transitions, refused, lines int
}

func exploreConfig(cfg HCfg, amts []int64, refusals bool, tw *traceWriter, runBase int, maxStates int) exploreStats {
	var st exploreStats
	st.configs = 1
	seen := map[[20]byte]bool{}
	var stack []*pf.GameState
	push := func(gs *pf.GameState) {
		k := viewKey(gs)
		if !seen[k] {
			seen[k] = true
			stack = append(stack, gs)
		}
	}
	g0 := pf.NewPokerFace().NewGame(cfg.options())
	g0.GetState().GameID = ""
	push(cloneGS(g0.GetState()))
	group := 0
	for len(stack) > 0 && len(seen) <= maxStates {
		s := stack[len(stack)-1]
		stack = stack[:len(stack)-1]
		tw.emit(runBase+group, true, "state", -1, 0, nil, s, M{"kind": "reset"})
		group++
		before := viewKey(s)
		try := func(op HOp) {
			g := pf.NewPokerFace().NewGameFromState(cloneGS(s))
			var err error
			extra := M{"kind": "probe"}
			if op.Op == "Start" {
				err = callOn(g, HOp{Op: "Start"})
				extra["shuffled"] = cards(g.GetState().Meta.Deck)
				if err == nil {
					g.GetState().Meta.Deck = append([]string{}, cfg.Deck...)
				}
			} else {
				err = callOn(g, op)
			}
			after := viewKey(g.GetState())
			if after != before {
				st.transitions++
				tw.emit(runBase+group, false, op.Op, op.Seat, op.X, err, g.GetState(), extra)
				push(cloneGS(g.GetState()))
			} else {
				st.refused++
				if refusals {
					tw.emit(runBase+group, false, op.Op, op.Seat, op.X, err, g.GetState(), extra)
				}
			}
		}
		if s.Status.CurrentEvent == "" {
			try(HOp{"Start", -1, 0})
			if refusals {
				for _, op := range tableOps {
					try(HOp{op, -1, 0})
				}
			}
			continue
		}
		for _, op := range tableOps {
			try(HOp{op, -1, 0})
		}
		for i := range s.Players {
			for _, a := range []string{"Fold", "Check", "Call", "Allin", "Pass"} {
				try(HOp{a, i, 0})
			}
			for _, x := range amts {
				try(HOp{"Bet", i, x})
				try(HOp{"Raise", i, x})
			}
		}
	}
	st.states = len(seen)
	return st
}

func cmdHoldemExplore(args []string) {
	fs := flag.NewFlagSet("holdem-explore", flag.ExitOnError)
	nset := fs.String("n", "2,3", "seat counts")
	banks := fs.String("banks", "1,2,3", "bankroll alphabet")
	structs := fs.String("structs", "0,0,1,2", "ante,dealer,sb,bb;...")
	amtS := fs.String("amts", "1..4", "amount alphabet for Bet/Raise")
	limits := fs.String("limits", "no", "no,pot")
	refusals := fs.Bool("refusals", false, "also record refused calls")
	outPrefix := fs.String("o", "explore", "output prefix: <prefix>-<k>.ndjson")
	workers := fs.Int("workers", 16, "")
	maxStates := fs.Int("max-states", 2000000, "per configuration")
	shard := fs.Int("shard", 0, "take configurations with index % of == shard")
	of := fs.Int("of", 1, "")
	only := fs.Int("only", -1, "explore only the configuration with this index (replay)")
	dry := fs.Bool("dry", false, "count only, write no lines")
	fs.Parse(args)
	amts := parseInts(*amtS)
	var cfgs []HCfg
	for _, n64 := range parseInts(*nset) {
		n := int(n64)
		bk := parseInts(*banks)
		var vecs [][]int64
		var rec func(cur []int64)
		rec = func(cur []int64) {
			if len(cur) == n {
				vecs = append(vecs, append([]int64{}, cur...))
				return
			}
			for _, b := range bk {
				rec(append(cur, b))
			}
		}
		rec(nil)
		for _, st := range parseStructs(*structs) {
			for _, lim := range strings.Split(*limits, ",") {
				for _, v := range vecs {
					for d := 0; d < n; d++ {
						for _, dead := range []bool{false, true} {
							if n == 2 && dead {
								continue
							}
							c := HCfg{Ante: st[0], Dealer: st[1], SB: st[2], BB: st[3], Limit: lim, HoleN: 2, ReqHole: 0,
								Ranking: "standard", DeckKind: "std", Bank: v, Pos: rolePositions(n, d, dead)}
							c.Deck = pf.NewStandardDeckCards()
							cfgs = append(cfgs, c)
						}
					}
				}
			}
		}
	}
	var mine []HCfg
	var mineIdx []int
	for i, c := range cfgs {
		if i%*of == *shard && (*only < 0 || i == *only) {
			mine = append(mine, c)
			mineIdx = append(mineIdx, i)
		}
	}
	var mu sync.Mutex
	var tot exploreStats
	var wg sync.WaitGroup
	ch := make(chan int, len(mine))
	for i := range mine {
		ch <- i
	}
	close(ch)
	for w := 0; w < *workers; w++ {
		wg.Add(1)
		go func(w int) {
			defer wg.Done()
			tw := newTraceWriter(fmt.Sprintf("%s-%d.ndjson", *outPrefix, w))
			tw.mute = *dry
			var loc exploreStats
			for i := range ch {
				s := exploreConfig(mine[i], amts, *refusals, tw, mineIdx[i]*1000000, *maxStates)
				loc.configs += s.configs
				loc.states += s.states
				loc.transitions += s.transitions
				loc.refused += s.refused
			}
			tw.close()
			mu.Lock()
			tot.configs += loc.configs
			tot.states += loc.states
			tot.transitions += loc.transitions
			tot.refused += loc.refused
			tot.lines += tw.lines
			mu.Unlock()
		}(w)
	}
	wg.Wait()
	keys := []string{}
	_ = sort.Strings
	_ = keys
	b, _ := json.Marshal(M{"configs": tot.configs, "states": tot.states, "transitions": tot.transitions, "refusedCalls": tot.refused, "lines": tot.lines})
	fmt.Println(string(b))
}

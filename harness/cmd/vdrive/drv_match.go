package main

// match-random: match.Table (match/table.go) as a client of the seat manager - Join through the table with its
// player-joined callback, ApplySeatChanges (positions + seats reported "left") with its player-left callbacks -
// interleaved with sit-in / next-hand on the table's own seat manager. Recorded in the seat-trace format
// (ops MT.Join, MT.Apply) against the same SeatManager model.

import (
	"encoding/json"
	"flag"
	"fmt"
	"math/rand"

	"github.com/weedbox/pokerface/match"
	sm "github.com/weedbox/pokerface/seat_manager"
)

func projSeatStr(m *sm.SeatManager) M {
	pj := projSeat(m)
	for i, s := range pj["seat"].([]M) {
		st := m.GetSeat(i)
		if st != nil && st.Player != nil {
			if v, ok := st.Player.(string); ok {
				s["player"] = pnumLoose(v)
			}
		}
	}
	return pj
}

func pnumLoose(s string) int {
	var x int
	if _, err := fmt.Sscanf(s, "p%d", &x); err != nil {
		return 999999
	}
	return x
}

func cmdMatchRandom(args []string) {
	fs := flag.NewFlagSet("match-random", flag.ExitOnError)
	out := fs.String("o", "match.ndjson", "")
	runs := fs.Int("runs", 100, "")
	steps := fs.Int("steps", 50, "")
	seed := fs.Int64("seed", 1, "")
	fs.Parse(args)
	r := rand.New(rand.NewSource(*seed))
	tw := newTraceWriter(*out)
	o := &potsOut{w: tw}
	for run := 0; run < *runs; run++ {
		max := 2 + r.Intn(8)
		t := match.NewTable(max)
		var cbs [][]interface{}
		t.OnPlayerJoined(func(p string, seat int) { cbs = append(cbs, []interface{}{"joined", pnumLoose(p), seat}) })
		t.OnPlayerLeft(func(p string, seat int) { cbs = append(cbs, []interface{}{"left", pnumLoose(p), seat}) })
		mgr := t.SeatManager()
		next := 1
		o.write(M{"kind": "reset", "reset": true, "run": 9000000 + run, "op": "new", "seat": -1, "p": -1, "got": -1, "res": "", "state": projSeatStr(mgr)})
		emit := func(op string, seat, p, got int, res string, extra M) {
			ln := M{"kind": "main", "reset": false, "run": 9000000 + run, "op": op, "seat": seat, "p": p, "got": got, "res": res, "state": projSeatStr(mgr)}
			for k, v := range extra {
				ln[k] = v
			}
			o.write(ln)
		}
		call := func(f func() error) (res string) {
			defer func() {
				if rec := recover(); rec != nil {
					res = "PANIC"
				}
			}()
			if err := f(); err != nil {
				return err.Error()
			}
			return ""
		}
		for s := 0; s < *steps; s++ {
			cbs = nil
			switch k := r.Intn(100); {
			case k < 35:
				seat := r.Intn(max)
				if r.Intn(3) == 0 {
					seat = -1
				}
				p := next
				next++
				res := call(func() error { return t.Join(seat, fmt.Sprintf("p%d", p)) })
				got := -1
				for _, c := range cbs {
					if c[0] == "joined" && c[1] == p {
						got = c[2].(int)
					}
				}
				emit("MT.Join", seat, p, got, res, nil)
				if res == "" && got >= 0 && r.Intn(4) != 0 {
					res := call(func() error { return mgr.Seat(got) })
					emit("SitIn", got, 0, -1, res, nil)
				}
			case k < 60:
				res := call(func() error { return mgr.Next() })
				emit("Next", -1, 0, -1, res, nil)
				if res == "PANIC" {
					s = *steps
				}
			default:
				sc := match.NewSeatChanges()
				if r.Intn(3) != 0 {
					sc.Dealer, sc.SB, sc.BB = r.Intn(max), r.Intn(max), r.Intn(max)
				}
				left := []int{}
				for i := 0; i < max; i++ {
					if r.Intn(4) == 0 {
						sc.Seats[i] = "left"
						left = append(left, i)
					} else if r.Intn(6) == 0 {
						sc.Seats[i] = "active" // any other state is ignored by the table
					}
				}
				res := call(func() error { return t.ApplySeatChanges(sc) })
				c := cbs
				if c == nil {
					c = [][]interface{}{}
				}
				emit("MT.Apply", -1, 0, -1, res, M{"left": left, "pos": []int{sc.Dealer, sc.SB, sc.BB}, "cbs": c})
			}
		}
	}
	tw.close()
	b, _ := json.Marshal(M{"runs": *runs, "lines": o.lines})
	fmt.Println(string(b))
}

func init() {
	commands["match-random"] = cmdMatchRandom
}

package main

func registerMore() {
	commands["holdem-explore"] = cmdHoldemExplore
	commands["holdem-sweep"] = cmdHoldemSweep
	commands["holdem-start"] = cmdHoldemStart
}

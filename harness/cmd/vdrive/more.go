package main

func registerMore() {
	commands["holdem-explore"] = cmdHoldemExplore
	commands["holdem-sweep"] = cmdHoldemSweep
	commands["holdem-start"] = cmdHoldemStart
	commands["pots-enum"] = cmdPotsEnum
	commands["pots-one"] = cmdPotsOne
	commands["rank-table"] = cmdRankTable
	commands["holdem-deal"] = cmdHoldemDeal
	commands["holdem-resume"] = cmdHoldemResume
	commands["holdem-views"] = cmdHoldemViews
	commands["seat-random"] = cmdSeatRandom
	commands["seat-replay"] = cmdSeatReplay
	commands["seat-explore"] = cmdSeatExplore
}

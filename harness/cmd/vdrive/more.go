package main

func registerMore() {
	commands["holdem-explore"] = cmdHoldemExplore
	commands["holdem-sweep"] = cmdHoldemSweep
	commands["holdem-start"] = cmdHoldemStart
	commands["pots-enum"] = cmdPotsEnum
	commands["pots-one"] = cmdPotsOne
	commands["rank-table"] = cmdRankTable
	commands["holdem-deal"] = cmdHoldemDeal
}

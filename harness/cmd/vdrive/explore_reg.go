//go:build verif

package main

// reg-explore: the reachable graph of the REAL regulator together with an environment of tables that
// follow its instructions, enumerated breadth-first in the same scope and with the same alphabet as
// MCReg.tla (registrations in batches 1..MaxBatch up to MaxReg players, status changes, syncs of any live
// table that has no instruction outstanding with 0..MaxOut eliminations - the lowest-numbered members
// go -, releases at any later moment, a sync naming an unknown table).
//
// The regulator has no clone: a state is rebuilt by replaying its operation path on a fresh regulator.
// Its dispatch iterates over a Go map, so one path may lead to different states on different runs; every
// expansion is therefore repeated (-repeat) and a replay that does not end in the state being expanded is
// retried.  Every distinct transition (state, call, outcome) is recorded as a `reset` line (the state,
// reached by replay) followed by one `main` line (the call on the real regulator), which RegTrace.tla
// validates against the precise model and the property clauses.  The number of distinct states is
// compared with TLC's count for the same scope by the caller.

import (
	"encoding/json"
	"flag"
	"fmt"
	"hash/fnv"
	"math/rand"
	"sort"
	"strconv"
	"sync"

	"github.com/weedbox/pokerface/regulator"
)

func sortedInts(xs []int) []int {
	r := append([]int{}, xs...)
	sort.Ints(r)
	return r
}

// key: the environment record `e` of MCReg.tla (View without the settle machinery)
func (e *regEnv) key() string {
	snap := regulatorSnapshot(e)
	b := make([]byte, 0, 256)
	ai := func(x int) { b = strconv.AppendInt(b, int64(x), 10); b = append(b, ',') }
	ai(snap.Status)
	ai(snap.PlayerCount)
	ai(snap.TableCount)
	ai(e.nreg)
	ai(e.nextTbl)
	b = append(b, 'q')
	for _, p := range snap.WaitingQueue {
		b = append(b, p...)
	}
	b = append(b, '|')
	tids := make([]int, 0, len(snap.Tables))
	for k := range snap.Tables {
		tids = append(tids, tnum(k))
	}
	sort.Ints(tids)
	for _, t := range tids {
		tb := snap.Tables[tname(t)]
		b = append(b, 't')
		ai(t)
		ai(tb.PlayerCount)
		ai(tb.Required)
	}
	b = append(b, '|')
	for _, t := range sortedKeys(e.member) {
		b = append(b, 'm')
		ai(t)
		for _, p := range sortedInts(e.member[t]) {
			ai(p)
		}
	}
	pk := make([]int, 0, len(e.pend))
	for t := range e.pend {
		pk = append(pk, t)
	}
	sort.Ints(pk)
	for _, t := range pk {
		b = append(b, 'p')
		ai(t)
		ai(e.pend[t])
	}
	b = append(b, '|', 'e')
	for _, p := range sortedInts(e.elim) {
		ai(p)
	}
	b = append(b, 'g')
	for _, p := range sortedInts(e.gone) {
		ai(p)
	}
	return string(b)
}

func hash64(s string) uint64 {
	h := fnv.New64a()
	h.Write([]byte(s))
	return h.Sum64()
}

func regulatorSnapshot(e *regEnv) *regulator.VerifState { return regulator.VerifSnapshot(e.r) }

func newRegEnvMuted(o *potsOut, run, max, min int) *regEnv {
	hold := &potsOut{buf: true}
	e := newRegEnv(hold, run, max, min) // the constructor's own reset line is dropped
	e.o = o
	e.mute = true
	e.calls = nil
	return e
}

// lastLineSig: what the recorded call returned (error, release count, players handed over, callbacks)
func (o *potsOut) lastLineSig() string {
	if len(o.held) == 0 {
		return ""
	}
	m := o.held[len(o.held)-1]
	b, _ := json.Marshal([]interface{}{m["err"], m["release"], m["handed"], m["calls"]})
	return string(b)
}

func (o *potsOut) flushTo(dst *potsOut, run int) {
	for _, m := range o.held {
		m["run"] = run
		dst.write(m)
	}
	o.held = nil
}

type regNode struct {
	key  string
	path []ROp
	keys []uint64 // hash of the state after every call of the path
}

// regAlphabet: the calls MCReg.tla enables in the state of e
func regAlphabet(e *regEnv, maxReg, maxBatch, maxOut int) []ROp {
	var ops []ROp
	for k := 1; k <= maxBatch; k++ {
		if e.nreg+k <= maxReg {
			ops = append(ops, ROp{Op: "Add", N: k})
		}
	}
	for st := e.status + 1; st <= 2; st++ {
		ops = append(ops, ROp{Op: "Status", N: st})
	}
	for _, t := range sortedKeys(e.member) {
		if _, pending := e.pend[t]; pending {
			continue
		}
		for k := 0; k <= maxOut && k <= len(e.member[t]); k++ {
			ops = append(ops, ROp{Op: "Sync", T: t, N: k})
		}
	}
	ops = append(ops, ROp{Op: "SyncUnknown"}, ROp{Op: "SyncUnknown", N: 1}, ROp{Op: "ReleaseUnknown"})
	for _, t := range e.strayTables() {
		ops = append(ops, ROp{Op: "SyncStray", T: t, N: 0}, ROp{Op: "SyncStray", T: t, N: 1})
	}
	pk := []int{}
	for t := range e.pend {
		pk = append(pk, t)
	}
	sort.Ints(pk)
	for _, t := range pk {
		ops = append(ops, ROp{Op: "Release", T: t})
	}
	return ops
}

func (e *regEnv) apply(op ROp) {
	// the lowest-numbered members are eliminated / released (MinK of MCReg.tla)
	for t := range e.member {
		sort.Ints(e.member[t])
	}
	switch op.Op {
	case "Add":
		e.add(op.N, "")
	case "Status":
		e.setStatus(op.N)
	case "Sync":
		e.sync(op.T, op.N, "")
	case "SyncUnknown":
		e.sync(e.nextTbl+1, op.N, "")
	case "SyncStray":
		e.syncStray(op.T, op.N)
	case "ReleaseUnknown":
		e.releaseStray(e.nextTbl + 1)
	case "Release":
		e.release(op.T, "")
	case "Settle":
		e.settle(rand.New(rand.NewSource(int64(op.N))), 14)
	}
}

// replayRegExplored: a script written by reg-explore - the path is replayed unrecorded, then a reset line
// shows the state reached and the last call (or settle episode) is recorded, as in the exploration
func replayRegExplored(o *potsOut, s RScript) *regEnv {
	e := newRegEnvMuted(o, s.Run, s.Max, s.Min)
	for i, op := range s.Ops {
		if i == len(s.Ops)-1 {
			e.mute = false
			e.calls = nil
			e.emit("reset", "new", -1, 0, nil, "", 0, nil, "")
		}
		e.apply(op)
	}
	e.script = s
	return e
}

func cmdRegExplore(args []string) {
	fs := flag.NewFlagSet("reg-explore", flag.ExitOnError)
	out := fs.String("o", "regx.ndjson", "")
	scripts := fs.String("scripts", "", "one script per recorded transition (for reproduction)")
	mx := fs.Int("max", 3, "")
	mn := fs.Int("min", 2, "")
	maxReg := fs.Int("maxreg", 7, "")
	maxBatch := fs.Int("maxbatch", 3, "")
	maxOut := fs.Int("maxout", 2, "")
	repeat := fs.Int("repeat", 4, "expansions per (state, call) when two or more tables exist: the code's dispatch iterates over a Go map")
	maxStates := fs.Int("max-states", 2000000, "")
	sample := fs.Int("sample", 1, "record the transitions of every k-th state only (all states are still explored)")
	workers := fs.Int("workers", 16, "")
	settle := fs.Int("settle", 0, "settle episodes (C20) from every recorded state in which the tables may settle, each with another sync order")
	settleEvery := fs.Int("settle-every", 1, "settle episodes from every k-th state only")
	fs.Parse(args)
	tw := newTraceWriter(*out)
	o := &potsOut{w: tw}
	var so *potsOut
	if *scripts != "" {
		so = &potsOut{w: newTraceWriter(*scripts)}
	}
	rebuild := func(n *regNode) *regEnv {
	retry:
		for try := 0; try < 400; try++ {
			e := newRegEnvMuted(nil, 0, *mx, *mn)
			for i, op := range n.path {
				e.apply(op)
				if hash64(e.key()) != n.keys[i] {
					continue retry // the map iteration took another branch: start again
				}
			}
			return e
		}
		return nil
	}
	type trans struct {
		op   ROp
		key  string
		sig  string
		held []M
		dead bool // the call panicked: recorded, not explored further
	}
	type result struct {
		n    *regNode
		idx  int
		lost int
		tr   []trans
		ep   []trans // settle episodes
	}
	expand := func(n *regNode, idx int) result {
		res := result{n: n, idx: idx}
		probe := rebuild(n)
		if probe == nil {
			res.lost++
			return res
		}
		reps := 1
		if len(regulatorSnapshot(probe).Tables) >= 2 {
			reps = *repeat
		}
		if idx%*sample == 0 && idx%*settleEvery == 0 && probe.status >= 1 && len(probe.pend) == 0 && len(probe.liveTables()) > 0 {
			for k := 0; k < *settle; k++ {
				e := rebuild(n)
				if e == nil {
					res.lost++
					break
				}
				buf := &potsOut{buf: true}
				e.o = buf
				e.mute = false
				e.calls = nil
				e.emit("reset", "new", -1, 0, nil, "", 0, nil, "")
				op := ROp{Op: "Settle", N: idx*7 + k}
				e.apply(op)
				res.ep = append(res.ep, trans{op: op, held: buf.held})
			}
		}
		for _, op := range regAlphabet(probe, *maxReg, *maxBatch, *maxOut) {
			seen := map[string]bool{}
			for rep := 0; rep < reps; rep++ {
				e := probe
				if rep > 0 || true {
					e = rebuild(n)
				}
				if e == nil {
					res.lost++
					break
				}
				buf := &potsOut{buf: true}
				e.o = buf
				e.mute = false
				e.calls = nil
				e.emit("reset", "new", -1, 0, nil, "", 0, nil, "")
				e.apply(op)
				k := e.key()
				sg := buf.lastLineSig()
				if seen[k+"#"+sg] {
					continue
				}
				seen[k+"#"+sg] = true
				res.tr = append(res.tr, trans{op: op, key: k, sig: sg, held: buf.held, dead: e.dead})
			}
		}
		return res
	}
	root := newRegEnvMuted(nil, 0, *mx, *mn)
	visited := map[string]bool{root.key(): true}
	level := []*regNode{{key: root.key()}}
	nTrans, nLost, run, depth, nodeIdx, nEpisodes := 0, 0, 0, 0, 0, 0
	for len(level) > 0 {
		results := make([]result, len(level))
		var wg sync.WaitGroup
		ch := make(chan int, len(level))
		for i := range level {
			ch <- i
		}
		close(ch)
		for w := 0; w < *workers; w++ {
			wg.Add(1)
			go func() {
				defer wg.Done()
				for i := range ch {
					results[i] = expand(level[i], nodeIdx+i)
				}
			}()
		}
		wg.Wait()
		nodeIdx += len(level)
		var next []*regNode
		for _, r := range results {
			nLost += r.lost
			for _, t := range r.ep {
				run++
				nEpisodes++
				for _, m := range t.held {
					m["run"] = run
					o.write(m)
				}
				if so != nil {
					b, _ := json.Marshal(RScript{Run: run, Max: *mx, Min: *mn, Sorted: true, Ops: append(append([]ROp{}, r.n.path...), t.op)})
					var m M
					json.Unmarshal(b, &m)
					so.write(m)
				}
			}
			for _, t := range r.tr {
				nTrans++
				if r.idx%*sample == 0 {
					run++
					for _, m := range t.held {
						m["run"] = run
						o.write(m)
					}
					if so != nil {
						b, _ := json.Marshal(RScript{Run: run, Max: *mx, Min: *mn, Sorted: true, Ops: append(append([]ROp{}, r.n.path...), t.op)})
						var m M
						json.Unmarshal(b, &m)
						so.write(m)
					}
				}
				if !t.dead && !visited[t.key] && len(visited) < *maxStates {
					visited[t.key] = true
					next = append(next, &regNode{key: t.key, path: append(append([]ROp{}, r.n.path...), t.op), keys: append(append([]uint64{}, r.n.keys...), hash64(t.key))})
				}
			}
		}
		level = next
		if len(next) > 0 {
			depth++
		}
	}
	tw.close()
	if so != nil {
		so.w.close()
	}
	b, _ := json.Marshal(M{"states": len(visited), "transitions": nTrans, "recorded_runs": run, "lines": o.lines, "unreproduced_states": nLost, "depth": depth, "settle_episodes": nEpisodes,
		"scope": M{"max": *mx, "min": *mn, "maxreg": *maxReg, "maxbatch": *maxBatch, "maxout": *maxOut, "repeat": *repeat}})
	fmt.Println(string(b))
}

func init() {
	commands["reg-explore"] = cmdRegExplore
}

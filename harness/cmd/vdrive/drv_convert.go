package main

// holdem-convert: raw lines recorded by harness/vrec while the repository's own scenario tests ran
// (operation, seat, amount, error, JSON of the state before and after the call) -> the trace format of
// HoldemTrace.tla, through the ONE projection function of proj_holdem.go.
//
// A call whose state-before differs from the state after the previous recorded call of the same game
// (the test set the deck or the hole cards by hand, or used a plumbing method such as Player.Pay) ends the
// run: the trace never pretends a step it did not see, and a hand-edited state is not the engine's doing.

import (
	"bytes"
	"encoding/json"
	"flag"
	"fmt"
	"os"
	"sort"

	pf "github.com/weedbox/pokerface"
)

type rawLine struct {
	Run    int             `json:"run"`
	Test   string          `json:"test"`
	Op     string          `json:"op"`
	Seat   int             `json:"seat"`
	X      int64           `json:"x"`
	Err    string          `json:"err"`
	Before json.RawMessage `json:"before"`
	After  json.RawMessage `json:"after"`
}

type strErr string

func (e strErr) Error() string { return string(e) }

// the state without its timestamps (every call stamps UpdatedAt)
func stateKey(raw json.RawMessage) string {
	var m map[string]interface{}
	if err := json.Unmarshal(raw, &m); err != nil {
		return string(raw)
	}
	delete(m, "updated_at")
	delete(m, "created_at")
	b, _ := json.Marshal(m)
	return string(b)
}

func cmdHoldemConvert(args []string) {
	fs := flag.NewFlagSet("holdem-convert", flag.ExitOnError)
	in := fs.String("in", "", "raw NDJSON written by harness/vrec")
	out := fs.String("o", "trace.ndjson", "")
	runBase := fs.Int("runbase", 0, "")
	scripts := fs.String("scripts", "", "write the recorded runs as scripts (configuration + operations) for the script-driven drivers")
	fs.Parse(args)
	hs := []HScript{}
	byRun := map[int][]rawLine{}
	order := []int{}
	for _, b := range readNDJSON(*in) {
		var l rawLine
		if err := json.Unmarshal(b, &l); err != nil {
			fatal("raw line: %v", err)
		}
		if _, ok := byRun[l.Run]; !ok {
			order = append(order, l.Run)
		}
		byRun[l.Run] = append(byRun[l.Run], l)
	}
	sort.Ints(order)
	tw := newTraceWriter(*out)
	calls, jumps := 0, 0
	tests := map[string]bool{}
	parse := func(raw json.RawMessage) *pf.GameState {
		var s pf.GameState
		d := json.NewDecoder(bytes.NewReader(raw))
		if err := d.Decode(&s); err != nil {
			fatal("state: %v", err)
		}
		return &s
	}
	for _, run := range order {
		last := ""
		for _, l := range byRun[run] {
			tests[l.Test] = true
			id := *runBase + run
			if l.Op == "new" || l.Op == "newFromState" {
				st := parse(l.After)
				tw.emit(id, true, "new", -1, 0, nil, st, M{"kind": "reset", "test": l.Test})
				last = stateKey(l.After)
				if c, ok := cfgOf(st); ok && l.Op == "new" {
					hs = append(hs, HScript{Run: id, Cfg: c, Note: l.Test})
				} else {
					hs = append(hs, HScript{Run: -1})
				}
				continue
			}
			if len(hs) > 0 && hs[len(hs)-1].Run == id && stateKey(l.Before) == last {
				h := &hs[len(hs)-1]
				h.Ops = append(h.Ops, HOp{l.Op, l.Seat, l.X})
				if l.Op == "Start" && l.Err == "" {
					h.Cfg.Deck = append([]string{}, parse(l.After).Meta.Deck...)
				}
			}
			if k := stateKey(l.Before); k != last {
				// the test edited the state by hand (or used a plumbing method): from here on the state is no longer
				// the engine's own doing, and what it violates would not be the engine's fault - the run ends here
				jumps++
				break
			}
			extra := M{"kind": "main", "test": l.Test}
			after := parse(l.After)
			if l.Op == "Start" {
				extra["shuffled"] = cards(after.Meta.Deck)
			}
			var err error
			if l.Err != "" {
				err = strErr(l.Err)
			}
			tw.emit(id, false, l.Op, l.Seat, l.X, err, after, extra)
			calls++
			last = stateKey(l.After)
		}
	}
	tw.close()
	if *scripts != "" {
		f, err := os.Create(*scripts)
		if err != nil {
			fatal("scripts: %v", err)
		}
		for _, h := range hs {
			if h.Run >= 0 && len(h.Ops) > 0 {
				b, _ := json.Marshal(h)
				f.Write(b)
				f.Write([]byte("\n"))
			}
		}
		f.Close()
	}
	names := []string{}
	for t := range tests {
		names = append(names, t)
	}
	sort.Strings(names)
	b, _ := json.Marshal(M{"runs": len(order), "steps": calls, "lines": tw.lines, "jumps": jumps, "tests": names})
	fmt.Println(string(b))
}

// cfgOf: the script configuration of a freshly created game, when the script format can express it
func cfgOf(st *pf.GameState) (HCfg, bool) {
	c := HCfg{Ante: st.Meta.Ante, Dealer: st.Meta.Blind.Dealer, SB: st.Meta.Blind.SB, BB: st.Meta.Blind.BB, Limit: st.Meta.Limit,
		HoleN: st.Meta.HoleCardsCount, ReqHole: st.Meta.RequiredHoleCardsCount}
	switch {
	case eqRanking(st.Meta.CombinationPowers, rankingStandard):
		c.Ranking = "standard"
	case eqRanking(st.Meta.CombinationPowers, rankingShort):
		c.Ranking = "short"
	default:
		return c, false
	}
	switch len(st.Meta.Deck) {
	case 52:
		c.DeckKind = "std"
	case 36:
		c.DeckKind = "short"
	case 0:
		c.DeckKind = "none"
	default:
		return c, false
	}
	if st.Meta.BurnCount < 1 || st.Status.CurrentEvent != "" {
		return c, false
	}
	c.BurnOpt = st.Meta.BurnCount - 1
	for _, p := range st.Players {
		c.Bank = append(c.Bank, p.Bankroll)
		c.Pos = append(c.Pos, append([]string{}, p.Positions...))
	}
	return c, true
}

func init() {
	commands["holdem-convert"] = cmdHoldemConvert
}

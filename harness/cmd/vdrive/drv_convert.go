package main

// holdem-convert: raw lines recorded by harness/vrec while the repository's own scenario tests ran
// (operation, seat, amount, error, JSON of the state before and after the call) -> the trace format of
// HoldemTrace.tla, through the ONE projection function of proj_holdem.go.
//
// A call whose state-before differs from the state after the previous recorded call of the same game
// (the test set the deck or the hole cards by hand, or used a plumbing method such as Player.Pay) ends the
// run: the trace never pretends a step it did not see, and a hand-edited state is not the engine's doing.

import (
	"bytes"
	"encoding/json"
	"flag"
	"fmt"
	"sort"

	pf "github.com/weedbox/pokerface"
)

type rawLine struct {
	Run    int             `json:"run"`
	Test   string          `json:"test"`
	Op     string          `json:"op"`
	Seat   int             `json:"seat"`
	X      int64           `json:"x"`
	Err    string          `json:"err"`
	Before json.RawMessage `json:"before"`
	After  json.RawMessage `json:"after"`
}

type strErr string

func (e strErr) Error() string { return string(e) }

// the state without its timestamps (every call stamps UpdatedAt)
func stateKey(raw json.RawMessage) string {
	var m map[string]interface{}
	if err := json.Unmarshal(raw, &m); err != nil {
		return string(raw)
	}
	delete(m, "updated_at")
	delete(m, "created_at")
	b, _ := json.Marshal(m)
	return string(b)
}

func cmdHoldemConvert(args []string) {
	fs := flag.NewFlagSet("holdem-convert", flag.ExitOnError)
	in := fs.String("in", "", "raw NDJSON written by harness/vrec")
	out := fs.String("o", "trace.ndjson", "")
	runBase := fs.Int("runbase", 0, "")
	fs.Parse(args)
	byRun := map[int][]rawLine{}
	order := []int{}
	for _, b := range readNDJSON(*in) {
		var l rawLine
		if err := json.Unmarshal(b, &l); err != nil {
			fatal("raw line: %v", err)
		}
		if _, ok := byRun[l.Run]; !ok {
			order = append(order, l.Run)
		}
		byRun[l.Run] = append(byRun[l.Run], l)
	}
	sort.Ints(order)
	tw := newTraceWriter(*out)
	calls, jumps := 0, 0
	tests := map[string]bool{}
	parse := func(raw json.RawMessage) *pf.GameState {
		var s pf.GameState
		d := json.NewDecoder(bytes.NewReader(raw))
		if err := d.Decode(&s); err != nil {
			fatal("state: %v", err)
		}
		return &s
	}
	for _, run := range order {
		last := ""
		for _, l := range byRun[run] {
			tests[l.Test] = true
			id := *runBase + run
			if l.Op == "new" || l.Op == "newFromState" {
				tw.emit(id, true, "new", -1, 0, nil, parse(l.After), M{"kind": "reset", "test": l.Test})
				last = stateKey(l.After)
				continue
			}
			if k := stateKey(l.Before); k != last {
				// the test edited the state by hand (or used a plumbing method): from here on the state is no longer
				// the engine's own doing, and what it violates would not be the engine's fault - the run ends here
				jumps++
				break
			}
			extra := M{"kind": "main", "test": l.Test}
			after := parse(l.After)
			if l.Op == "Start" {
				extra["shuffled"] = cards(after.Meta.Deck)
			}
			var err error
			if l.Err != "" {
				err = strErr(l.Err)
			}
			tw.emit(id, false, l.Op, l.Seat, l.X, err, after, extra)
			calls++
			last = stateKey(l.After)
		}
	}
	tw.close()
	names := []string{}
	for t := range tests {
		names = append(names, t)
	}
	sort.Strings(names)
	b, _ := json.Marshal(M{"runs": len(order), "steps": calls, "lines": tw.lines, "jumps": jumps, "tests": names})
	fmt.Println(string(b))
}

func init() {
	commands["holdem-convert"] = cmdHoldemConvert
}

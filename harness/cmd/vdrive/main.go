package main

// vdrive: conformance harness that drives the REAL weedbox/pokerface code (built from
// /repo's working tree through the replace directive of harness/go.mod) and records
// what it does as NDJSON traces for TLC. See /verif/DESIGN.md section 3.

import (
	"fmt"
	"os"
)

func fatal(f string, a ...interface{}) {
	fmt.Fprintf(os.Stderr, "vdrive: "+f+"\n", a...)
	os.Exit(2)
}

var commands = map[string]func([]string){}

func main() {
	commands["holdem-random"] = cmdHoldemRandom
	commands["holdem-replay"] = cmdHoldemReplay
	registerMore()
	if len(os.Args) < 2 {
		fatal("usage: vdrive <command> [flags]")
	}
	c, ok := commands[os.Args[1]]
	if !ok {
		fatal("unknown command %s", os.Args[1])
	}
	c(os.Args[2:])
}

func readNDJSON(path string) [][]byte {
	data, err := os.ReadFile(path)
	if err != nil {
		fatal("read %s: %v", path, err)
	}
	var res [][]byte
	start := 0
	for i := 0; i <= len(data); i++ {
		if i == len(data) || data[i] == '\n' {
			if i > start {
				res = append(res, data[start:i])
			}
			start = i + 1
		}
	}
	return res
}

//go:build verif

package main

// seat-conc (C18, schedules): concurrent Join calls under a DECIDED interleaving.
// The verif hooks of seat_manager give (a) a gate inside join() between the occupancy check
// and the commit and (b) a sequence number taken under the mutex.  One goroutine is held at
// the gate while the others call Join (same seat, other seats, any seat): with the mutex they
// must block until the first one is released; a goroutine that gets INTO the critical section
// while another is held there is recorded (enteredWhileHeld) whether or not seats collide.
// One line per episode: seat map before, the calls in sequence-number order with their
// results, seat map after.

import (
	"encoding/json"
	"flag"
	"fmt"
	"math/rand"
	"runtime"
	"strings"
	"sync"
	"time"

	sm "github.com/weedbox/pokerface/seat_manager"
)

type concCall struct {
	Seat int    `json:"seat"`
	P    int    `json:"p"`
	Got  int    `json:"got"`
	Res  string `json:"res"`
	Seq  int    `json:"seq"`
}

func concEpisode(o *potsOut, run int, r *rand.Rand, race bool) {
	max := 2 + r.Intn(4)
	m := sm.NewSeatManager(max)
	// some history first
	pid := 1
	for i := 0; i < r.Intn(2*max); i++ {
		switch r.Intn(4) {
		case 0, 1:
			applySeat(m, SOp{Op: "Join", Seat: r.Intn(max), P: pid})
			pid++
		case 2:
			applySeat(m, SOp{Op: "SitIn", Seat: r.Intn(max), P: 0})
		case 3:
			applySeat(m, SOp{Op: "Next", Seat: -1, P: 0})
		}
	}
	pre := projSeat(m)
	k := 2 + r.Intn(3)
	calls := make([]concCall, k)
	target := r.Intn(max)
	for i := range calls {
		s := target
		switch r.Intn(4) {
		case 0:
			s = r.Intn(max)
		case 1:
			s = -1
		}
		calls[i] = concCall{Seat: s, P: pid, Got: -1, Seq: -1}
		pid++
	}
	var mu sync.Mutex
	seq := 0
	holding := false      // TRUE exactly while the first goroutine is provably inside join() (blocked at the gate)
	enteredWhileHeld := 0 // entries into Join's critical section while the holder was inside
	held := make(chan struct{})
	release := make(chan struct{})
	first := true
	seqOf := map[int]int{} // goroutine index by order of entry
	var order []int
	cur := make(chan int, 16)
	sm.VerifSeq = func(seatID int) {
		mu.Lock()
		if holding {
			enteredWhileHeld++
		}
		seq++
		mu.Unlock()
	}
	sm.VerifGate = func(point string, seatID int) {
		mu.Lock()
		f := first
		first = false
		mu.Unlock()
		if f && !race {
			mu.Lock()
			holding = true
			mu.Unlock()
			close(held)
			<-release
		}
	}
	defer func() { sm.VerifSeq = nil; sm.VerifGate = nil }()
	_ = seqOf
	_ = order
	_ = cur
	var wg sync.WaitGroup
	done := make([]chan struct{}, k)
	start := func(i int) {
		done[i] = make(chan struct{})
		wg.Add(1)
		go func() {
			defer wg.Done()
			defer close(done[i])
			func() {
				defer func() {
					if rec := recover(); rec != nil {
						calls[i].Res = "PANIC"
					}
				}()
				got, err := m.Join(calls[i].Seat, calls[i].P)
				calls[i].Got = got
				if err != nil {
					calls[i].Res = err.Error()
				}
			}()
		}()
	}
	blockedOnMutex, finishedWhileHeld := 0, 0
	if race {
		// free-running goroutines (run under -race in the thorough tier): no decided schedule
		for i := 0; i < k; i++ {
			start(i)
		}
		wg.Wait()
	} else {
		start(0)
		gateReached := true
		select {
		case <-held:
		case <-done[0]:
			gateReached = false // refused before the gate (occupied / invalid seat): nothing is held
		case <-time.After(2 * time.Second):
			gateReached = false
		}
		if !gateReached {
			// nobody is held: the gate lets everybody through from now on
			mu.Lock()
			first = false
			holding = false
			mu.Unlock()
			close(release)
		}
		for i := 1; i < k; i++ {
			start(i)
		}
		if gateReached {
			// give the others time to run into the mutex, then look at where they are
			deadline := time.Now().Add(300 * time.Millisecond)
			for time.Now().Before(deadline) {
				buf := make([]byte, 1<<20)
				n := runtime.Stack(buf, true)
				blockedOnMutex = strings.Count(string(buf[:n]), "sync.(*RWMutex).Lock")
				if blockedOnMutex >= k-1 {
					break
				}
				time.Sleep(2 * time.Millisecond)
			}
			for i := 1; i < k; i++ {
				select {
				case <-done[i]:
					finishedWhileHeld++
				default:
				}
			}
			mu.Lock()
			holding = false
			mu.Unlock()
			close(release)
		}
		wg.Wait()
	}
	// sequence numbers: order of entry into the critical section is not observable per call without
	// touching the code further; the property predicates are order-free (see SeatProps C18_conc)
	for i := range calls {
		calls[i].Seq = i
	}
	b, _ := json.Marshal(calls)
	var cj []M
	json.Unmarshal(b, &cj)
	o.write(M{"kind": "conc", "run": run, "pre": pre, "calls": cj, "post": projSeat(m),
		"enteredWhileHeld": enteredWhileHeld, "finishedWhileHeld": finishedWhileHeld, "blockedOnMutex": blockedOnMutex, "race": race})
}

func cmdSeatConc(args []string) {
	fs := flag.NewFlagSet("seat-conc", flag.ExitOnError)
	out := fs.String("o", "seatconc.ndjson", "")
	runs := fs.Int("runs", 100, "")
	seed := fs.Int64("seed", 1, "")
	race := fs.Bool("race", false, "free-running goroutines instead of a decided schedule")
	fs.Parse(args)
	r := rand.New(rand.NewSource(*seed))
	tw := newTraceWriter(*out)
	o := &potsOut{w: tw}
	o.write(M{"kind": "reset", "reset": true, "run": -1, "op": "new", "seat": -1, "p": -1, "got": -1, "res": "", "state": projSeat(sm.NewSeatManager(2))})
	for i := 0; i < *runs; i++ {
		concEpisode(o, i, r, *race)
	}
	tw.close()
	b, _ := json.Marshal(M{"runs": *runs, "lines": o.lines})
	fmt.Println(string(b))
}

func init() {
	commands["seat-conc"] = cmdSeatConc
}

package main

// Projection of the engine's GameState into the abstract state of spec/Holdem.tla.
// ONE projection function, used by every engine driver. Everything is emitted with a
// fixed shape (no missing fields, no nulls: an absent pointer is the empty array,
// which is NULL == <<>> in the specification) so that the TLA+ predicates are total
// even on states produced by broken code.

import (
	"bufio"
	"encoding/json"
	"os"

	pf "github.com/weedbox/pokerface"
	"github.com/weedbox/pokerface/combination"
)

type M = map[string]interface{}

var rankOf = map[byte]int{'2': 2, '3': 3, '4': 4, '5': 5, '6': 6, '7': 7, '8': 8, '9': 9, 'T': 10, 'J': 11, 'Q': 12, 'K': 13, 'A': 14}
var suitOf = map[byte]int{'S': 1, 'H': 2, 'D': 3, 'C': 4}

// card "SA" -> 141 (rank*10 + suit); anything malformed -> 0
func card(s string) int {
	if len(s) != 2 {
		return 0
	}
	r, ok1 := rankOf[s[1]]
	u, ok2 := suitOf[s[0]]
	if !ok1 || !ok2 {
		return 0
	}
	return r*10 + u
}

func cards(ss []string) []int {
	r := make([]int, 0, len(ss))
	for _, s := range ss {
		r = append(r, card(s))
	}
	return r
}

// TLC integers are 32 bit: amounts are clipped (sign preserved) to +-2*10^8 (sums over 10 seats stay below 2^31)
const clipMax = int64(200000000)

func clip(x int64) int64 {
	if x > clipMax {
		return clipMax
	}
	if x < -clipMax {
		return -clipMax
	}
	return x
}

func strs(a []string) []string {
	if a == nil {
		return []string{}
	}
	return a
}

func projPlayer(p *pf.PlayerState) M {
	var comb interface{} = []int{}
	if p.Combination != nil {
		comb = M{"type": p.Combination.Type, "cards": cards(p.Combination.Cards), "power": clip(int64(p.Combination.Power))}
	}
	return M{"idx": p.Idx, "pos": strs(p.Positions), "acted": p.Acted, "fold": p.Fold, "did": p.DidAction, "vpip": p.VPIP,
		"allowed": strs(p.AllowedActions), "bankroll": clip(p.Bankroll), "init": clip(p.InitialStackSize),
		"stack": clip(p.StackSize), "pot": clip(p.Pot), "wager": clip(p.Wager), "hole": cards(p.HoleCards), "comb": comb}
}

func projHoldem(gs *pf.GameState) M {
	n := len(gs.Players)
	ps := make([]M, 0, n)
	for _, p := range gs.Players {
		ps = append(ps, projPlayer(p))
	}
	pots := []M{}
	for _, p := range gs.Status.Pots {
		c := [][]int64{}
		extra := 0
		for i := 0; i < n; i++ {
			if v, ok := p.Contributors[i]; ok {
				c = append(c, []int64{int64(i), clip(v)})
			}
		}
		for k := range p.Contributors {
			if k < 0 || k >= n {
				extra++
			}
		}
		pots = append(pots, M{"level": clip(p.Level), "wager": clip(p.Wager), "total": clip(p.Total), "contrib": c, "extra": extra})
	}
	var last interface{} = []int{}
	if gs.Status.LastAction != nil {
		la := gs.Status.LastAction
		last = M{"source": la.Source, "type": la.Type, "value": clip(la.Value)}
	}
	var res interface{} = []int{}
	if gs.Result != nil {
		rp := make([]M, n)
		seen := make([]int, n)
		extra := 0
		for i := range rp {
			rp[i] = M{"present": false, "final": 0, "changed": 0}
		}
		for _, r := range gs.Result.Players {
			if r.Idx < 0 || r.Idx >= n {
				extra++
				continue
			}
			seen[r.Idx]++
			if seen[r.Idx] > 1 {
				extra++
				continue
			}
			rp[r.Idx] = M{"present": true, "final": clip(r.Final), "changed": clip(r.Changed)}
		}
		rpots := []M{}
		for _, p := range gs.Result.Pots {
			ws := []M{}
			for _, w := range p.Winners {
				ws = append(ws, M{"idx": w.Idx, "withdraw": clip(w.Withdraw)})
			}
			rpots = append(rpots, M{"total": clip(p.Total), "winners": ws})
		}
		res = M{"players": rp, "pots": rpots, "extra": extra}
	}
	ranking := "other"
	if eqRanking(gs.Meta.CombinationPowers, rankingStandard) {
		ranking = "standard"
	} else if eqRanking(gs.Meta.CombinationPowers, rankingShort) {
		ranking = "short"
	}
	return M{"n": n,
		"meta": M{"ante": clip(gs.Meta.Ante), "dealerBlind": clip(gs.Meta.Blind.Dealer), "sb": clip(gs.Meta.Blind.SB), "bb": clip(gs.Meta.Blind.BB),
			"limit": gs.Meta.Limit, "holeN": gs.Meta.HoleCardsCount, "reqHole": gs.Meta.RequiredHoleCardsCount, "ranking": ranking},
		"ev": gs.Status.CurrentEvent, "round": gs.Status.Round, "cur": gs.Status.CurrentPlayer, "raiser": gs.Status.CurrentRaiser,
		"cw": clip(gs.Status.CurrentWager), "prs": clip(gs.Status.PreviousRaiseSize), "miniBet": clip(gs.Status.MiniBet), "maxWager": clip(gs.Status.MaxWager),
		"roundPot": clip(gs.Status.CurrentRoundPot), "deckPos": gs.Status.CurrentDeckPosition, "board": cards(gs.Status.Board),
		"burned": cards(gs.Status.Burned), "pots": pots, "last": last, "result": res, "P": ps}
}

// ---- trace writer -------------------------------------------------------------

type traceWriter struct {
	f        *os.File
	w        *bufio.Writer
	lines    int
	mute     bool   // count lines, write nothing
	lastDeck string // JSON of the last deck written for the current run
}

func newTraceWriter(path string) *traceWriter {
	f, err := os.Create(path)
	if err != nil {
		fatal("create trace: %v", err)
	}
	return &traceWriter{f: f, w: bufio.NewWriterSize(f, 1<<20)}
}

func (t *traceWriter) close() {
	t.w.Flush()
	t.f.Close()
}

func errStr(err error) string {
	if err == nil {
		return ""
	}
	return err.Error()
}

// emit one line: the state AFTER the call returned (also on the error path).
// extra fields (e.g. "shuffled", "views") are merged into the line.
func (t *traceWriter) emit(run int, reset bool, op string, seat int, x int64, err error, gs *pf.GameState, extra M) {
	if t.mute {
		t.lines++
		return
	}
	deck := cards(gs.Meta.Deck)
	db, _ := json.Marshal(deck)
	ds := string(db)
	line := M{"run": run, "reset": reset, "op": op, "seat": seat, "x": clip(x), "err": errStr(err), "state": projHoldem(gs)}
	if reset || ds != t.lastDeck {
		line["deckSame"] = false
		line["deck"] = deck
		t.lastDeck = ds
	} else {
		line["deckSame"] = true
		line["deck"] = []int{}
	}
	line["reeval"] = reeval(gs)
	for k, v := range extra {
		line[k] = v
	}
	b, e := json.Marshal(line)
	if e != nil {
		fatal("marshal: %v", e)
	}
	t.w.Write(b)
	t.w.WriteByte('\n')
	t.lines++
}

// reeval: the evaluator re-run on the five cards each player's published hand names
// (C10: "category, cards and strength describe one and the same hand")
func reeval(gs *pf.GameState) []M {
	out := make([]M, 0, len(gs.Players))
	for _, p := range gs.Players {
		m := M{"type": "", "power": 0}
		if len(gs.Status.Board) >= 3 && p.Combination != nil && len(p.Combination.Cards) == 5 {
			ok := true
			for _, c := range p.Combination.Cards {
				if card(c) == 0 {
					ok = false
				}
			}
			if ok {
				ps := combination.CalculatePower(gs.Meta.CombinationPowers, p.Combination.Cards)
				m = M{"type": combination.CombinationSymbol[ps.Combination], "power": clip(int64(ps.Score))}
			}
		}
		out = append(out, m)
	}
	return out
}

-------------------------- MODULE SeatBlindsProof --------------------------
(***************************************************************************)
(* TLAPS proof about the MODEL of seat_manager.renewSeatStatus (RenewOnce   *)
(* of SeatManager.tla) for ANY number of seats: with a playable dealer and  *)
(* at least two more playable seats, the small blind is the first playable  *)
(* seat clockwise from the dealer and the big blind the first playable seat *)
(* clockwise from the small blind (C08, first sentence, three or more       *)
(* players) - and no slice is indexed out of range (no panic).              *)
(***************************************************************************)
EXTENDS SeatNextProof, SequenceTheorems

\* explicit form of the clockwise distance and of walking
LEMMA DistForm == ASSUME NEW n \in Nat \ {0}, NEW d \in 0..(n - 1), NEW x \in 0..(n - 1)
                  PROVE (x - d) % n = IF x >= d THEN x - d ELSE x - d + n
  BY ModSmall, ModNeg
LEMMA WalkForm == ASSUME NEW n \in Nat \ {0}, NEW d \in 0..(n - 1), NEW k \in 0..(n - 1)
                  PROVE (d + k) % n = IF d + k < n THEN d + k ELSE d + k - n
  <1>1. CASE d + k < n
    <2>1. d + k \in 0..(n - 1)
      BY <1>1
    <2> QED BY <1>1, <2>1, ModSmall
  <1>2. CASE d + k >= n
    <2>1. d + k \in n..(2 * n - 1)
      BY <1>2
    <2> QED BY <1>2, <2>1, ModWrap
  <1> QED BY <1>1, <1>2
LEMMA SbDist == ASSUME NEW n \in Nat \ {0}, NEW dl \in 0..(n - 1), NEW k \in 1..(n - 1), NEW z \in 0..(n - 1),
                       z # dl, (z - dl) % n > k
                PROVE (z - ((dl + k) % n)) % n = (z - dl) % n - k
  <1> DEFINE sb == (dl + k) % n
  <1>1. sb = IF dl + k < n THEN dl + k ELSE dl + k - n
    BY WalkForm
  <1>2. sb \in 0..(n - 1)
    BY <1>1
  <1>3. (z - dl) % n = IF z >= dl THEN z - dl ELSE z - dl + n
    BY DistForm
  <1>4. (z - sb) % n = IF z >= sb THEN z - sb ELSE z - sb + n
    BY <1>2, DistForm
  <1>5. (z - sb) % n = (z - dl) % n - k
    <2> HIDE DEF sb
    <2> QED BY <1>1, <1>2, <1>3, <1>4
  <1> QED BY <1>5
LEMMA DealerDist == ASSUME NEW n \in Nat \ {0}, NEW dl \in 0..(n - 1), NEW k \in 1..(n - 1)
                    PROVE (dl - ((dl + k) % n)) % n = n - k
  <1> DEFINE sb == (dl + k) % n
  <1>1. sb = IF dl + k < n THEN dl + k ELSE dl + k - n
    BY WalkForm
  <1>2. sb \in 0..(n - 1)
    BY <1>1
  <1>3. (dl - sb) % n = IF dl >= sb THEN dl - sb ELSE dl - sb + n
    BY <1>2, DistForm
  <1>5. (dl - sb) % n = n - k
    <2> HIDE DEF sb
    <2> QED BY <1>1, <1>2, <1>3
  <1> QED BY <1>5

\* the tail of a tail: From(From(After(m, d), a), 2) starts a seats further on
LEMMA FromFromAt ==
  ASSUME NEW m, m.max \in Nat \ {0}, NEW d \in Int, NEW a \in 1..(m.max - 1)
  PROVE  LET s3 == From(From(After(m, d), a), 2) IN
         /\ Len(s3) = m.max - 1 - a
         /\ \A j \in 1..(m.max - 1 - a) : s3[j] = (d + a + j) % m.max
<1> DEFINE n == m.max
           s1 == After(m, d)
           s2 == SubSeq(s1, a, n - 1)
           s3 == SubSeq(s2, 2, n - a)
<1>1. Len(s1) = n - 1 /\ \A j \in 1..(n - 1) : s1[j] = (d + j) % n
  BY AfterLen, AfterAt
<1>2. \A j \in 1..(n - 1) : s1[j] \in Int
  BY <1>1
<1>3. Len(s2) = n - a /\ \A i \in 1..(n - a) : s2[i] = s1[a + i - 1]
  <2>1. \A i \in a..(n - 1) : s1[i] \in Int
    BY <1>2
  <2>2. a \in Int /\ n - 1 \in Int
    OBVIOUS
  <2> HIDE DEF s1
  <2> QED BY <2>1, <2>2, SubSeqProperties
<1>4. \A i \in 1..(n - a) : s2[i] \in Int
  BY <1>3, <1>2
<1>5. Len(s3) = n - a - 1 /\ \A j \in 1..(n - a - 1) : s3[j] = s2[2 + j - 1]
  <2>1. \A i \in 2..(n - a) : s2[i] \in Int
    BY <1>4
  <2>2. 2 \in Int /\ n - a \in Int
    OBVIOUS
  <2> HIDE DEF s2
  <2> QED BY <2>1, <2>2, SubSeqProperties
<1>6. \A j \in 1..(n - 1 - a) : s3[j] = (d + a + j) % n
  <2> SUFFICES ASSUME NEW j \in 1..(n - 1 - a) PROVE s3[j] = (d + a + j) % n
    OBVIOUS
  <2>1. s3[j] = s2[j + 1]
    BY <1>5
  <2>2. s2[j + 1] = s1[a + j]
    BY <1>3
  <2>3. s1[a + j] = (d + (a + j)) % n
    BY <1>1
  <2> QED BY <2>1, <2>2, <2>3
<1>7. From(From(After(m, d), a), 2) = s3
  BY <1>1, <1>3 DEF From
<1> QED BY <1>5, <1>6, <1>7

THEOREM BlindsOnTheNextPlayers ==
  ASSUME NEW m, m.max \in Nat \ {0}, m.dealer \in 0..(m.max - 1),
         m = [max |-> m.max, seat |-> m.seat, dealer |-> m.dealer, sb |-> m.sb, bb |-> m.bb, crashed |-> m.crashed],
         m.dealer \in PlayableSet(m),
         Cardinality(PlayableSet(m)) # 2,
         NEW x \in PlayableSet(m), NEW y \in PlayableSet(m), x # m.dealer, y # m.dealer, x # y
  PROVE  LET r == RenewOnce(m) IN
         /\ r.sb \in PlayableSet(m) /\ r.sb # m.dealer
         /\ \A z \in PlayableSet(m) : z # m.dealer => (r.sb - m.dealer) % m.max <= (z - m.dealer) % m.max
         /\ r.bb \in PlayableSet(m) /\ r.bb # r.sb
         /\ \A z \in PlayableSet(m) : z # r.sb => (r.bb - r.sb) % m.max <= (z - r.sb) % m.max
<1> DEFINE n == m.max
           dl == m.dealer
           s1 == After(m, dl)
           kSB == FindActive(m, s1)
           sb == s1[kSB]
           s3 == From(From(s1, kSB), 2)
           kBB == FindActive(m, s3)
           bb == s3[kBB]
           P == PlayableSet(m)
<1>0. n \in Nat \ {0} /\ dl \in 0..(n - 1) /\ \A z \in P : z \in 0..(n - 1) /\ Playable(m, z)
  BY DEF PlayableSet, SeatIds
<1>1. Len(s1) = n - 1 /\ \A j \in 1..(n - 1) : s1[j] = (dl + j) % n
  BY AfterLen, AfterAt
<1>2. /\ kSB \in 0..(n - 1)
      /\ (kSB = 0) <=> (\A j \in 1..(n - 1) : ~Playable(m, s1[j]))
      /\ (kSB # 0) => (Playable(m, s1[kSB]) /\ \A j \in 1..(kSB - 1) : ~Playable(m, s1[j]))
  <2>1. n - 1 \in Nat
    OBVIOUS
  <2> QED BY <1>1, <2>1, FindActiveSpec
<1>3. \A z \in P : z # dl => ((z - dl) % n \in 1..(n - 1) /\ s1[(z - dl) % n] = z)
  <2> SUFFICES ASSUME NEW z \in P, z # dl PROVE (z - dl) % n \in 1..(n - 1) /\ s1[(z - dl) % n] = z
    OBVIOUS
  <2>1. z \in 0..(n - 1)
    BY <1>0
  <2> HIDE DEF s1, P
  <2> QED BY <2>1, <1>0, <1>1, DistTo
<1>4. kSB \in 1..(n - 1)
  <2> HIDE DEF s1, kSB
  <2> QED BY <1>0, <1>2, <1>3
<1>5. sb = (dl + kSB) % n /\ sb \in 0..(n - 1) /\ sb # dl /\ (sb - dl) % n = kSB /\ Playable(m, sb)
  <2> HIDE DEF s1, kSB
  <2> QED BY <1>0, <1>1, <1>2, <1>4, WalkFrom
<1>6. \A z \in P : z # dl => kSB <= (z - dl) % n
  <2> SUFFICES ASSUME NEW z \in P, z # dl PROVE kSB <= (z - dl) % n
    OBVIOUS
  <2>0. PICK j \in Int : j = (z - dl) % n
    BY <1>3
  <2>1. j \in 1..(n - 1) /\ s1[j] = z /\ Playable(m, z)
    BY <2>0, <1>3, <1>0
  <2> HIDE DEF s1, kSB, P
  <2>2. ~(j \in 1..(kSB - 1))
    BY <2>1, <1>2, <1>4
  <2> QED BY <2>0, <2>1, <2>2, <1>4
<1>7. Len(s3) = n - 1 - kSB /\ \A j \in 1..(n - 1 - kSB) : s3[j] = (dl + kSB + j) % n
  <2> HIDE DEF kSB
  <2> QED BY <1>0, <1>4, FromFromAt
\* a playable seat other than dealer and small blind lies strictly further from the dealer than the small blind
<1>8. \A z \in P : (z # dl /\ z # sb) =>
         ((z - dl) % n > kSB /\ (z - dl) % n - kSB \in 1..(n - 1 - kSB) /\ s3[(z - dl) % n - kSB] = z)
  <2> SUFFICES ASSUME NEW z \in P, z # dl, z # sb
               PROVE (z - dl) % n > kSB /\ (z - dl) % n - kSB \in 1..(n - 1 - kSB) /\ s3[(z - dl) % n - kSB] = z
    OBVIOUS
  <2>0. PICK jz \in Int : jz = (z - dl) % n
    BY <1>3
  <2>1. jz \in 1..(n - 1) /\ s1[jz] = z /\ kSB <= jz
    BY <2>0, <1>3, <1>6
  <2>2. jz # kSB
    BY <2>1
  <2> HIDE DEF s1, kSB, sb, s3, P
  <2>3. jz - kSB \in 1..(n - 1 - kSB) /\ jz > kSB
    BY <2>1, <2>2, <1>4
  <2>4. s3[jz - kSB] = (dl + kSB + (jz - kSB)) % n
    BY <2>3, <1>7
  <2>5. dl + kSB + (jz - kSB) = dl + jz
    BY <2>1, <1>4, <1>0
  <2>6. s1[jz] = (dl + jz) % n
    BY <2>1, <1>1
  <2> QED BY <2>0, <2>1, <2>3, <2>4, <2>5, <2>6
<1>9. /\ kBB \in 0..(n - 1 - kSB)
      /\ (kBB = 0) <=> (\A j \in 1..(n - 1 - kSB) : ~Playable(m, s3[j]))
      /\ (kBB # 0) => (Playable(m, s3[kBB]) /\ \A j \in 1..(kBB - 1) : ~Playable(m, s3[j]))
  <2>1. n - 1 - kSB \in Nat
    BY <1>4
  <2> HIDE DEF s3, kSB
  <2> QED BY <1>7, <2>1, FindActiveSpec
<1>10. kBB \in 1..(n - 1 - kSB)
  <2>1. \E z \in P : z # dl /\ z # sb
    OBVIOUS
  <2>2. PICK z \in P : z # dl /\ z # sb
    BY <2>1
  <2>3. Playable(m, z)
    BY <1>0
  <2> HIDE DEF s1, kSB, sb, s3, kBB, P
  <2> QED BY <2>2, <2>3, <1>8, <1>9
<1>11. bb = (dl + kSB + kBB) % n /\ Playable(m, bb)
  <2> HIDE DEF s1, kSB, s3, kBB
  <2> QED BY <1>7, <1>9, <1>10
<1> DEFINE t == kSB + kBB
<1>12. t \in 2..(n - 1)
  BY <1>4, <1>10
<1>13. bb \in 0..(n - 1) /\ bb # dl /\ (bb - dl) % n = t
  <2>1. bb = (dl + t) % n
    BY <1>11, <1>4, <1>10
  <2> HIDE DEF s1, kSB, s3, kBB, bb, t
  <2> QED BY <2>1, <1>12, <1>0, WalkFrom
<1>14. bb # sb
  <2> HIDE DEF s1, kSB, s3, kBB, bb, sb
  <2> QED BY <1>13, <1>5, <1>10, <1>4
<1>15. bb \in P
  BY <1>11, <1>13 DEF PlayableSet, SeatIds
<1>16. (bb - sb) % n = kBB
  <2>1. (bb - dl) % n > kSB
    BY <1>13, <1>10, <1>4
  <2>2. (bb - ((dl + kSB) % n)) % n = (bb - dl) % n - kSB
    <3> HIDE DEF s1, kSB, s3, kBB, bb
    <3> QED BY <2>1, <1>13, <1>4, <1>0, SbDist
  <2> HIDE DEF s1, kSB, s3, kBB, bb, sb
  <2> QED BY <2>2, <1>5, <1>13, <1>4, <1>10
<1>17. \A z \in P : z # sb => kBB <= (z - sb) % n
  <2> SUFFICES ASSUME NEW z \in P, z # sb PROVE kBB <= (z - sb) % n
    OBVIOUS
  <2>1. CASE z = dl
    <3>1. (dl - ((dl + kSB) % n)) % n = n - kSB
      <4> HIDE DEF kSB
      <4> QED BY <1>0, <1>4, DealerDist
    <3> HIDE DEF s1, kSB, s3, kBB, sb
    <3> QED BY <2>1, <3>1, <1>5, <1>10, <1>4
  <2>2. CASE z # dl
    <3> DEFINE j == (z - dl) % n - kSB
    <3>1. (z - dl) % n > kSB /\ j \in 1..(n - 1 - kSB) /\ s3[j] = z
      BY <2>2, <1>8
    <3>2. Playable(m, z) /\ z \in 0..(n - 1)
      BY <1>0
    <3>3. (z - ((dl + kSB) % n)) % n = (z - dl) % n - kSB
      <4> HIDE DEF kSB
      <4> QED BY <2>2, <3>1, <3>2, <1>4, <1>0, SbDist
    <3> HIDE DEF s1, kSB, s3, kBB, sb, j, P
    <3>4. ~(j \in 1..(kBB - 1))
      BY <3>1, <3>2, <1>9, <1>10
    <3>5. kBB <= j
      BY <3>1, <3>4, <1>10
    <3>6. (z - sb) % n = j
      BY <3>3, <1>5 DEF j
    <3> QED BY <3>5, <3>6
  <2> QED BY <2>1, <2>2
\* RenewOnce takes exactly these values
<1>18. RenewOnce(m).sb = sb /\ RenewOnce(m).bb = bb
  <2> DEFINE orig == Norm(m, m.dealer)
             kb == CHOOSE k \in 1..Len(orig) : orig[k] = bb
             deact == {orig[k] : k \in 1..(kb - 1)} \cap {s \in SeatIds(m) : m.seat[s].player = NULL}
             m1 == SetActive(m, deact, FALSE)
             m2 == SetActive(m1, SeqSet(From(From(s3, kBB), 2)), TRUE)
  <2>1. RenewOnce(m) = [m2 EXCEPT !.sb = sb, !.bb = bb]
    BY <1>4, <1>10 DEF RenewOnce, After
  <2>2. m2 = [max |-> m.max, seat |-> m2.seat, dealer |-> m.dealer, sb |-> m.sb, bb |-> m.bb, crashed |-> m.crashed]
    BY DEF SetActive
  <2> HIDE DEF m2, sb, bb
  <2> QED BY <2>1, <2>2
<1>19. sb \in P
  BY <1>5 DEF PlayableSet, SeatIds
<1>20. \A z \in P : z # dl => (sb - dl) % n <= (z - dl) % n
  BY <1>5, <1>6
<1>21. \A z \in P : z # sb => (bb - sb) % n <= (z - sb) % n
  BY <1>16, <1>17
<1> HIDE DEF s1, kSB, sb, s3, kBB, bb, t
<1> QED BY <1>5, <1>14, <1>15, <1>18, <1>19, <1>20, <1>21

\* heads-up (exactly two seats can play): the dealer is the small blind, the other player the big blind
THEOREM HeadsUpBlinds ==
  ASSUME NEW m, m.max \in Nat \ {0}, m.dealer \in 0..(m.max - 1),
         m = [max |-> m.max, seat |-> m.seat, dealer |-> m.dealer, sb |-> m.sb, bb |-> m.bb, crashed |-> m.crashed],
         m.dealer \in PlayableSet(m),
         Cardinality(PlayableSet(m)) = 2,
         NEW x \in PlayableSet(m), x # m.dealer
  PROVE  LET r == RenewOnce(m) IN
         /\ r.sb = m.dealer
         /\ r.bb \in PlayableSet(m) /\ r.bb # m.dealer
         /\ \A z \in PlayableSet(m) : z # m.dealer => (r.bb - m.dealer) % m.max <= (z - m.dealer) % m.max
<1> DEFINE n == m.max
           dl == m.dealer
           s3 == After(m, dl)
           kBB == FindActive(m, s3)
           bb == s3[kBB]
           P == PlayableSet(m)
<1>0. n \in Nat \ {0} /\ dl \in 0..(n - 1) /\ \A z \in P : z \in 0..(n - 1) /\ Playable(m, z)
  BY DEF PlayableSet, SeatIds
<1>1. Len(s3) = n - 1 /\ \A j \in 1..(n - 1) : s3[j] = (dl + j) % n
  BY AfterLen, AfterAt
<1>2. /\ kBB \in 0..(n - 1)
      /\ (kBB = 0) <=> (\A j \in 1..(n - 1) : ~Playable(m, s3[j]))
      /\ (kBB # 0) => (Playable(m, s3[kBB]) /\ \A j \in 1..(kBB - 1) : ~Playable(m, s3[j]))
  <2>1. n - 1 \in Nat
    OBVIOUS
  <2> QED BY <1>1, <2>1, FindActiveSpec
<1>3. \A z \in P : z # dl => ((z - dl) % n \in 1..(n - 1) /\ s3[(z - dl) % n] = z)
  <2> SUFFICES ASSUME NEW z \in P, z # dl PROVE (z - dl) % n \in 1..(n - 1) /\ s3[(z - dl) % n] = z
    OBVIOUS
  <2>1. z \in 0..(n - 1)
    BY <1>0
  <2> HIDE DEF s3, P
  <2> QED BY <2>1, <1>0, <1>1, DistTo
<1>4. kBB \in 1..(n - 1)
  <2> HIDE DEF s3, kBB
  <2> QED BY <1>0, <1>2, <1>3
<1>5. bb = (dl + kBB) % n /\ bb \in 0..(n - 1) /\ bb # dl /\ (bb - dl) % n = kBB /\ Playable(m, bb)
  <2> HIDE DEF s3, kBB
  <2> QED BY <1>0, <1>1, <1>2, <1>4, WalkFrom
<1>6. \A z \in P : z # dl => kBB <= (z - dl) % n
  <2> SUFFICES ASSUME NEW z \in P, z # dl PROVE kBB <= (z - dl) % n
    OBVIOUS
  <2>0. PICK j \in Int : j = (z - dl) % n
    BY <1>3
  <2>1. j \in 1..(n - 1) /\ s3[j] = z /\ Playable(m, z)
    BY <2>0, <1>3, <1>0
  <2> HIDE DEF s3, kBB, P
  <2>2. ~(j \in 1..(kBB - 1))
    BY <2>1, <1>2, <1>4
  <2> QED BY <2>0, <2>1, <2>2, <1>4
<1>7. RenewOnce(m).sb = dl /\ RenewOnce(m).bb = bb
  <2> DEFINE orig == Norm(m, m.dealer)
             kb == CHOOSE k \in 1..Len(orig) : orig[k] = bb
             deact == {orig[k] : k \in 1..(kb - 1)} \cap {s \in SeatIds(m) : m.seat[s].player = NULL}
             m1 == SetActive(m, deact, FALSE)
             m2 == SetActive(m1, SeqSet(From(From(s3, kBB), 2)), TRUE)
  <2>1. RenewOnce(m) = [m2 EXCEPT !.sb = dl, !.bb = bb]
    BY <1>4 DEF RenewOnce, After
  <2>2. m2 = [max |-> m.max, seat |-> m2.seat, dealer |-> m.dealer, sb |-> m.sb, bb |-> m.bb, crashed |-> m.crashed]
    BY DEF SetActive
  <2> HIDE DEF m2, bb
  <2> QED BY <2>1, <2>2
<1>8. bb \in P
  BY <1>5 DEF PlayableSet, SeatIds
<1>9. \A z \in P : z # dl => (bb - dl) % n <= (z - dl) % n
  BY <1>5, <1>6
<1> HIDE DEF s3, kBB, bb
<1> QED BY <1>5, <1>7, <1>8, <1>9
=============================================================================

----------------------------- MODULE SeatProps -----------------------------
(***************************************************************************)
(* What C08, C17 and C18 DEMAND of the seat manager, over                   *)
(*   m : seat map before the call     t : seat map after the call           *)
(*   o : the call [op, seat, p, got, res]  (res = "" | error name | PANIC)  *)
(*   h : history [joins, leaves, track]                                     *)
(***************************************************************************)
EXTENDS SeatManager

SeqSetS(q) == {q[k] : k \in 1..Len(q)}
Occupied(m) == {s \in SeatIds(m) : m.seat[s].player # NULL}
\* the seat ids strictly between a and b walking clockwise from a (empty when a = b)
BetweenCW(m, a, b) == {x \in SeatIds(m) : x # a /\ x # b /\ ((x - a) % m.max) < ((b - a) % m.max)}
\* first seat of S strictly clockwise after `from` (S \ {from} must be non-empty unless from is the only choice)
FirstCW(m, S, from) ==
  LET d(x) == IF x = from THEN m.max ELSE (x - from) % m.max
  IN CHOOSE x \in S : \A y \in S : d(x) <= d(y)
SameSeats(m, t) == t.seat = m.seat

(* ---------------------------------- C08 ---------------------------------- *)
NextOK(o) == o.op = "Next" /\ o.res = ""
C08_positions(m, t, o) == NextOK(o) =>
  LET P == PlayableSet(t) IN
  /\ t.dealer \in P /\ t.sb \in P /\ t.bb \in P
  /\ Cardinality(P) = 2 => (t.sb = t.dealer /\ t.bb # t.dealer)
  /\ Cardinality(P) >= 3 => (t.sb = FirstCW(t, P \ {t.dealer}, t.dealer) /\ t.bb = FirstCW(t, P \ {t.sb}, t.sb))
\* late joiner: tracked from a successful join of an empty seat strictly between dealer and big blind,
\* for as long as every OTHER seat keeps its player and its reserved flag
Others(m, s) == [x \in SeatIds(m) \ {s} |-> <<m.seat[x].player, m.seat[x].reserved>>]
TrackNext(h, m, t, o) ==
  \* "between the dealer and the big blind": both are players sitting at the table and able to play when the seat is taken
  LET joined == IF o.op = "Join" /\ o.res = "" /\ o.got \in SeatIds(m) /\ m.dealer # NULL /\ m.bb # NULL /\ m.dealer # m.bb
                   /\ Playable(m, m.dealer) /\ Playable(m, m.bb)
                   \* ... of the hand the last successful move set up (a REFUSED move may shift the dealer and activate seats)
                   /\ <<m.dealer, m.sb, m.bb>> = h.posAtNext
                   /\ o.got \in BetweenCW(m, m.dealer, m.bb) /\ m.seat[o.got].player = NULL
                THEN {o.got} ELSE {}
      \* tracking ends when the player is dealt in, leaves, another seat changes its player or reserved flag, or a
      \* move with fewer than two playable seats lets the waiting players in (C17's rule re-arranges the blinds then)
      keep == {s \in DOMAIN h.track : s \notin joined /\ t.seat[s].player # NULL /\ Others(t, s) = h.track[s].others
                                      /\ ~(NextOK(o) /\ Playable(t, s))
                                      /\ ~(o.op = "Next" /\ Cardinality(PlayableSet(m)) < 2)}
  IN [s \in keep \cup joined |->
        IF s \in joined THEN [others |-> Others(t, s), passed |-> FALSE,
                               \* F8 shape: the seat was occupied when the blinds of the running hand were set (so it was
                               \* rightly left active then) and has been vacated since
                               vacatedSince |-> m.seat[s].active /\ s \in h.occAtNext]
        ELSE [h.track[s] EXCEPT !.passed = @ \/ (NextOK(o) /\ m.dealer # NULL /\ s \in BetweenCW(m, m.dealer, t.dealer))]]
\* (with fewer than two playable seats the letting-in rule of C17 governs instead: waiting players are let in at once)
LateBadSeats(h, m, t, o) ==
  IF ~(NextOK(o) /\ Cardinality(PlayableSet(m)) >= 2) THEN {}
  ELSE {s \in DOMAIN h.track :
          /\ t.seat[s].player # NULL /\ Others(t, s) = h.track[s].others /\ m.dealer # NULL
          /\ LET passed == h.track[s].passed \/ s \in BetweenCW(m, m.dealer, t.dealer)
             IN ~(Playable(t, s) <=> (passed /\ ~t.seat[s].reserved))}
\* the clause name tells whether the seat taken had been OCCUPIED when the blinds of the running hand were set and
\* was vacated since (it is then still active) - the shape of known finding F8, and of nothing else
\* ... or (known finding F11) whether the newcomer is dealt in early on a seat that the move has left BEHIND the new big
\* blind: players between the small blind and the old big blind sat in after the blinds were set, the blinds zone of the
\* next hand ends before the seat, and "activate the rest" switches it on although the button has not passed it
BehindNewBigBlind(t, s) == t.dealer # NULL /\ t.bb # NULL /\ t.dealer # t.bb /\ s \in BetweenCW(t, t.bb, t.dealer)
C08_lateJoinerBad(h, m, t, o) ==
  {IF h.track[s].vacatedSince THEN "C08.lateJoiner.seatVacatedSinceBlindsSet"
   ELSE IF Playable(t, s) /\ BehindNewBigBlind(t, s) THEN "C08.lateJoiner.seatBehindNewBigBlind"
   ELSE "C08.lateJoiner" : s \in LateBadSeats(h, m, t, o)}

(* ---------------------------------- C17 ---------------------------------- *)
\* "the previous dealer" is a fact of the history, not a field that any operation may rewrite: it is the dealer
\* the last move to the next hand left behind (h.lastDealer: what the seat manager showed after the last Next,
\* accepted or refused, or after positions were set explicitly) - taking or leaving a seat, sitting in or out
\* do not change where the button was.  (A REFUSED Next of the code may move or forget the dealer; the next move
\* then starts from what it left: recorded as the deviation RefusedNextHasEffects, not judged here.)
PrevDealer(h, m) == h.lastDealer
C17_button(h, m, t, o) == (o.op = "Next" /\ Cardinality(PlayableSet(m)) >= 2) =>
  /\ o.res = ""
  /\ IF PrevDealer(h, m) # NULL THEN t.dealer = FirstCW(m, PlayableSet(m) \ {PrevDealer(h, m)}, PrevDealer(h, m))
     ELSE t.dealer \in PlayableSet(m)
C17_insufficient(m, t, o) == o.op = "Next" =>
  /\ (NonEmptyCount(m) < 2 => o.res = "ErrInsufficientNumberOfPlayers")
  /\ (o.res = "" => Cardinality(PlayableSet(t)) >= 2)
  /\ o.res \in {"", "ErrInsufficientNumberOfPlayers"}

(* ---------------------------------- C18 ---------------------------------- *)
C18_noPanic(o) == o.res # "PANIC"
C18_count(h2, t) == Cardinality(Occupied(t)) = h2.joins - h2.leaves
FreeSeats(m) == {s \in SeatIds(m) : m.seat[s].player = NULL /\ ~m.seat[s].reserved}
OnlySeatChanged(m, t, s) == \A x \in SeatIds(m) \ {s} : t.seat[x] = m.seat[x]
C18_join(m, t, o) == o.op = "Join" =>
  IF o.seat # -1
  THEN IF o.seat \notin SeatIds(m) \/ m.seat[o.seat].player # NULL
       THEN o.res \notin {"", "PANIC"} /\ SameSeats(m, t)
       ELSE o.res = "" /\ o.got = o.seat /\ t.seat[o.seat].player = o.p /\ ~Playable(t, o.seat) /\ OnlySeatChanged(m, t, o.seat)
  ELSE IF FreeSeats(m) = {}
       THEN o.res = "ErrNoAvailableSeat" /\ SameSeats(m, t)
       ELSE o.res = "" /\ o.got \in FreeSeats(m) /\ t.seat[o.got].player = o.p /\ ~Playable(t, o.got) /\ OnlySeatChanged(m, t, o.got)
\* a player who has merely joined is held out of play until they sit in (HOW - the code reserves the seat - is not
\* prescribed: C18.join asks for 'not playable' right after the join, C18.heldOut for no position on a merely joined player)
C18_heldOut(t, o) == NextOK(o) => \A s \in {t.dealer, t.sb, t.bb} \cap SeatIds(t) : ~t.seat[s].reserved /\ t.seat[s].player # NULL
C18_leave(m, t, o) == o.op = "Leave" =>
  IF o.seat \in SeatIds(m) /\ m.seat[o.seat].player # NULL
  THEN o.res = "" /\ t.seat[o.seat].player = NULL /\ OnlySeatChanged(m, t, o.seat)
  ELSE o.res \notin {"", "PANIC"} /\ SameSeats(m, t)
\* match.Table.ApplySeatChanges (match/table.go): the seats reported "left" are freed - exactly those that were
\* occupied, each announced by one player-left callback naming who sat there - and nothing else changes
C18_applyLeft(m, t, o) == o.op = "MT.Apply" =>
  LET freed == {s \in SeqSetS(o.left) \cap SeatIds(m) : m.seat[s].player # NULL} IN
  /\ o.res = ""
  /\ \A s \in freed : t.seat[s].player = NULL /\ ~t.seat[s].reserved
  /\ \A s \in SeatIds(m) \ freed : t.seat[s] = m.seat[s]
  /\ {<<o.cbs[k][2], o.cbs[k][3]>> : k \in {j \in 1..Len(o.cbs) : o.cbs[j][1] = "left"}} = {<<m.seat[s].player, s>> : s \in freed}
  /\ Cardinality({j \in 1..Len(o.cbs) : o.cbs[j][1] = "left"}) = Cardinality(freed)
C18_noDup(t) == \A a, b \in Occupied(t) : a # b => t.seat[a].player # t.seat[b].player

(* C18, schedules: an episode of CONCURRENT Join calls (pre, calls, post), order-free *)
ConcBad(pre, calls, post, flags) ==
  LET K == 1..Len(calls)
      ok == {k \in K : calls[k].res = ""}
      gots == {calls[k].got : k \in ok}
  IN (IF flags.enteredWhileHeld = 0 /\ flags.finishedWhileHeld = 0 THEN {} ELSE {"C18.conc.mutualExclusion"}) \cup
     (IF \A k \in K : calls[k].res # "PANIC" THEN {} ELSE {"C18.noPanic"}) \cup
     (IF /\ \A a, b \in ok : a # b => calls[a].got # calls[b].got
         /\ \A k \in ok : calls[k].got \in SeatIds(pre) /\ pre.seat[calls[k].got].player = NULL
                           /\ post.seat[calls[k].got].player = calls[k].p /\ ~Playable(post, calls[k].got)
                           /\ (calls[k].seat # -1 => calls[k].got = calls[k].seat)
                           /\ (calls[k].seat = -1 => calls[k].got \in FreeSeats(pre))
      THEN {} ELSE {"C18.conc.oneSeatOnePlayer"}) \cup
     (IF /\ Occupied(post) = Occupied(pre) \cup gots
         /\ Cardinality(Occupied(post)) = Cardinality(Occupied(pre)) + Cardinality(ok)
         /\ \A x \in SeatIds(pre) \ gots : post.seat[x] = pre.seat[x]
      THEN {} ELSE {"C18.conc.count"}) \cup
     (IF \A k \in K \ ok :
            /\ (calls[k].seat \in SeatIds(pre) => post.seat[calls[k].seat].player # NULL /\ post.seat[calls[k].seat].player # calls[k].p)
            /\ (calls[k].seat = -1 => FreeSeats(post) = {})
      THEN {} ELSE {"C18.conc.refusedOnlyWhenTaken"})

\* occAtNext : seats occupied right after the last successful move to the next hand (all seats after a jump:
\*             nothing is then attributed to the F8 shape by mistake... conservatively none)
HistS0 == [joins |-> 0, leaves |-> 0, track |-> [s \in {} |-> 0], occAtNext |-> {}, posAtNext |-> <<NULL, NULL, NULL>>, lastDealer |-> NULL]
HistSJump(t) == [joins |-> Cardinality(Occupied(t)), leaves |-> 0, track |-> [s \in {} |-> 0], occAtNext |-> {}, posAtNext |-> <<NULL, NULL, NULL>>,
                 lastDealer |-> t.dealer]
\* a jump to a state whose explorer path is known: positions / occupied seats of the last successful move on that path
HistSJumpWith(t, pos, occ) == [HistSJump(t) EXCEPT !.posAtNext = pos, !.occAtNext = occ]
HistSNext(h, m, t, o) ==
  [joins |-> h.joins + (IF o.op = "Join" /\ o.res = "" THEN 1 ELSE 0),
   leaves |-> h.leaves + (IF o.op = "Leave" /\ o.res = "" THEN 1 ELSE 0)
                       + (IF o.op = "MT.Apply" THEN Cardinality({j \in 1..Len(o.cbs) : o.cbs[j][1] = "left"}) ELSE 0)
                       \* Reset sends everybody away: whoever is gone afterwards counts as having left (C18 says nothing about Reset)
                       + (IF o.op = "Reset" THEN Cardinality(Occupied(m)) - Cardinality(Occupied(t)) ELSE 0),
   track |-> TrackNext(h, m, t, o),
   \* Reset empties the table: the hand the last move set up is void, nobody "stays put" across it (no late-joiner
   \* tracking until the next successful move)
   occAtNext |-> IF NextOK(o) THEN Occupied(t) ELSE IF o.op = "Reset" THEN {} ELSE h.occAtNext,
   posAtNext |-> IF NextOK(o) THEN <<t.dealer, t.sb, t.bb>> ELSE IF o.op = "Reset" THEN <<NULL, NULL, NULL>> ELSE h.posAtNext,
   \* (what Reset does to the button is not stated: the manager may keep it - the code does - or forget it with the rest of
   \* the table; either way the next move is measured from what the manager shows after the Reset)
   lastDealer |-> IF o.op \in {"Next", "MT.Apply", "Reset"} THEN t.dealer ELSE h.lastDealer]

N(name, holds) == IF holds THEN {} ELSE {name}
FailedSeat(h, h2, m, t, o, props) ==
  (IF "C08" \in props THEN N("C08.positions", C08_positions(m, t, o)) \cup C08_lateJoinerBad(h, m, t, o) ELSE {}) \cup
  (IF "C17" \in props THEN N("C17.button", C17_button(h, m, t, o)) \cup N("C17.insufficient", C17_insufficient(m, t, o)) ELSE {}) \cup
  (IF "C18" \in props THEN N("C18.noPanic", C18_noPanic(o)) \cup N("C18.count", o.res = "PANIC" \/ C18_count(h2, t))
                           \cup N("C18.join", C18_join(m, t, o)) \cup N("C18.heldOut", C18_heldOut(t, o))
                           \cup N("C18.leave", C18_leave(m, t, o)) \cup N("C18.noDup", C18_noDup(t))
                           \cup N("C18.match.applyLeft", C18_applyLeft(m, t, o)) ELSE {})
ExercisedSeat(h, m, t, o) ==
  {"op." \o o.op \o (IF o.res = "" THEN ".ok" ELSE ".refused")} \cup
  (IF NextOK(o) THEN {"C08.positions.n" \o ToString(Cardinality(PlayableSet(t)))} ELSE {}) \cup
  (IF NextOK(o) /\ DOMAIN h.track # {} THEN {"C08.lateJoiner"} ELSE {}) \cup
  (IF NextOK(o) /\ (\E s \in DOMAIN h.track : t.seat[s].player # NULL /\ Others(t, s) = h.track[s].others /\ Playable(t, s)) THEN {"C08.lateJoiner.dealtIn"} ELSE {}) \cup
  (IF o.op = "Next" /\ Cardinality(PlayableSet(m)) >= 2 THEN {"C17.button"} ELSE {}) \cup
  (IF o.op = "Next" /\ NonEmptyCount(m) < 2 THEN {"C17.insufficient"} ELSE {}) \cup
  (IF o.op = "Join" /\ o.seat = -1 THEN {"C18.joinAny"} ELSE {}) \cup
  (IF o.op = "Join" /\ o.seat = -1 /\ FreeSeats(m) = {} THEN {"C18.joinAny.full"} ELSE {})
=============================================================================

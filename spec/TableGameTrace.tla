--------------------------- MODULE TableGameTrace ---------------------------
(***************************************************************************)
(* One hand driven through the table layer (table/game.go + the stateless   *)
(* NativeBackend) in lock-step with a plain in-memory engine game M.        *)
(* Each line: one table-game call (TG.Start, TG.Ready, TG.Pay, TG.<action>) *)
(* with the table game's state after it came to rest, M's state, the error. *)
(*  - C07.tableGameEqualsInMemory: the table game, which rebuilds the game  *)
(*    from its JSON state for every call, shows exactly the in-memory       *)
(*    game's state (its own "ready"/"pay" allowances aside), and never      *)
(*    stalls where the in-memory game goes on                               *)
(*  - conformance with the precise model TableGame.tla (MODEL-DRIFT)        *)
(***************************************************************************)
EXTENDS TableGame, HoldemJson
CONSTANTS TraceFile, Props, MaxViol
VARIABLES l, tg, viol, drift, cnt
Trace == ndJsonDeserialize(TraceFile)

Strip(g) == [g EXCEPT !.P = [i \in Seats(g) |-> [g.P[i] EXCEPT !.allowed = SelectSeq(@, LAMBDA a : a \notin {"ready", "pay"})]]]
ErrClass(e) == CASE e = "" -> "" [] e = "game: invalid action" -> "ErrInvalidAction" [] e = "table: player not in the game" -> "ErrPlayerNotInGame"
                 [] e = "game: no running game" -> "ErrNoRunningGame" [] OTHER -> "engine"
Bad(ln) ==
  (IF ~ln.stuck THEN {} ELSE {"C07.tableGameStalls"}) \cup
  (IF ~ln.hasTG \/ (Strip(ToGs(ln.TG, ln.deckTG)) = ToGs(ln.M, ln.deckM) /\ ln.rawEq) THEN {} ELSE {"C07.tableGameEqualsInMemory"})
Act(op) == CASE op = "TG.Fold" -> "Fold" [] op = "TG.Check" -> "Check" [] op = "TG.Call" -> "Call" [] op = "TG.Allin" -> "Allin"
             [] op = "TG.Pass" -> "Pass" [] op = "TG.Bet" -> "Bet" [] op = "TG.Raise" -> "Raise" [] OTHER -> "?"
ModelStep(t0, ln, obs) ==
  LET pw == [i \in Seats(obs) |-> obs.P[i].comb] IN
  CASE ln.op = "TG.Ready" -> TGReady(t0, ln.seat, pw)
    [] ln.op = "TG.Pay" -> TGPay(t0, ln.seat, pw)
    [] Act(ln.op) # "?" -> TGAction(t0, ln.seat, Act(ln.op), ln.x, pw)
    [] OTHER -> TOK(t0)
ModelErr(r) == IF r.ok THEN "" ELSE IF r.err = "engine" THEN "engine" ELSE r.err
TGStepOK(t0, ln, obs) == LET r == ModelStep(t0, ln, obs) IN Norm(r.tg.g) = obs /\ ModelErr(r) = ErrClass(ln.err)

Bump(cc, T) == [k \in (DOMAIN cc) \cup T |-> (IF k \in DOMAIN cc THEN cc[k] ELSE 0) + (IF k \in T THEN 1 ELSE 0)]
Init == l = 1 /\ tg = NewTG /\ viol = {} /\ drift = {} /\ cnt = [k \in {} |-> 0]
Step ==
  /\ l < Len(Trace) /\ l' = l + 1
  /\ LET ln == Trace[l + 1]
         obs == ToGs(ln.TG, ln.deckTG)
     IN IF ln.kind = "reset" \/ ~ln.hasTG
        THEN tg' = NewTG /\ viol' = viol /\ drift' = drift /\ cnt' = Bump(cnt, {"runs"})
        ELSE LET r == IF ln.op = "TG.Start" THEN TOK(Deliver(NewTG, obs, [i \in Seats(obs) |-> obs.P[i].comb])) ELSE ModelStep(tg, ln, obs)
                 ok == ln.op = "TG.Start" \/ TGStepOK(tg, ln, obs)
             IN /\ viol' = viol \cup {<<l + 1, nm>> : nm \in {x \in (IF "C07" \in Props THEN Bad(ln) ELSE {}) : Cardinality({w \in viol : w[2] = x}) < MaxViol}}
                /\ drift' = IF ok \/ Cardinality(drift) >= MaxViol THEN drift ELSE drift \cup {l + 1}
                \* the model state follows the observation (re-synchronised on drift); the ready group's bookkeeping comes from the model
                /\ tg' = IF ln.op = "TG.Start" THEN [r.tg EXCEPT !.g = obs]
                         ELSE IF ok THEN r.tg ELSE [r.tg EXCEPT !.g = obs]
                /\ cnt' = Bump(cnt, {"tg.calls", "tg." \o ln.op \o (IF ln.err = "" THEN "" ELSE ".refused")}
                                    \cup (IF obs.ev = "GameClosed" /\ (tg.g = NULL \/ tg.g.ev # "GameClosed") THEN {"tg.handsClosed"} ELSE {}))
  /\ (l + 1 = Len(Trace)) =>
        PrintT(<<"RESULT", ToJson([lines |-> Len(Trace), viol |-> viol', drift |-> drift', cnt |-> cnt'])>>)
Spec == Init /\ [][Step]_<<l, tg, viol, drift, cnt>>
=============================================================================

SPECIFICATION Spec
CONSTANTS
  NSet = {2,3}
  BankSet = {1,2,3}
  Structs <- StructsBasic
  Limits = {"no"}
  AmtLo = 1
  AmtHi = 4
  S = 1
  Props = {"C01","C04","C05","C06","C11","C12","C13","C14"}
  TrackHist = FALSE
VIEW CmpView
INVARIANTS StateOK
PROPERTIES StepOK
CHECK_DEADLOCK FALSE

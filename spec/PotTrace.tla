------------------------------ MODULE PotTrace ------------------------------
(***************************************************************************)
(* Validation of calls RECORDED FROM THE REAL pot and settlement packages   *)
(* (harness: pots-enum) - one line per call with input and output:          *)
(*   kind "pots"   : c, f, insertion order  ->  published pots              *)
(*   kind "settle" : c, f, s                ->  pots, per-player change     *)
(* against the property layer PotProps (C16, C02: a failed clause is a      *)
(* violation candidate) and the precise models Pots / Settlement (a         *)
(* mismatch is MODEL-DRIFT).  Lines are independent of each other.          *)
(***************************************************************************)
EXTENDS Settlement, Json
CONSTANTS TraceFile, Props, MaxViol
VARIABLES l, viol, drift, cnt
PP == INSTANCE PotProps

Trace == ndJsonDeserialize(TraceFile)
Pl(ln) == 0..(ln.n - 1)
Fn(ln, seq) == [i \in Pl(ln) |-> seq[i + 1]]
ToPots(js) == [k \in 1..Len(js) |->
   LET p == js[k] IN
   [level |-> p.level, wager |-> p.wager, total |-> p.total,
    contrib |-> [i \in {p.contrib[j][1] : j \in 1..Len(p.contrib)} |->
                   LET j == CHOOSE j \in 1..Len(p.contrib) : p.contrib[j][1] = i IN p.contrib[j][2]],
    levels |-> [j \in 1..Len(p.levels) |-> [level |-> p.levels[j].level, wager |-> p.levels[j].wager, total |-> p.levels[j].total,
                                            contributors |-> {p.levels[j].contributors[x] : x \in 1..Len(p.levels[j].contributors)}]]]]

\* "pots" lines of vectors fed multiplied by K = 2^53+1 carry the outputs divided by K: the formulas of C16 are linear in
\* the contributions, so every output must have been an exact multiple of K (the settlement is not linear: odd chips)
IsScaled(ln) == "scaled" \in DOMAIN ln /\ ln.scaled
Inexact(ln, prop) == IF prop \in Props /\ IsScaled(ln) /\ ~ln.exact THEN {prop \o ".hugeAmountsExact"} ELSE {}
Check(ln) ==
  LET S == Pl(ln)
      c == Fn(ln, ln.c)
      f == [i \in S |-> ln.f[i + 1] = 1]
      pots == ToPots(ln.pots)
      mp == GetPots(c, f, S)
  IN IF ln.kind = "pots"
     THEN [bad |-> (IF "C16" \in Props THEN PP!FailedC16(S, c, f, pots) ELSE {}) \cup Inexact(ln, "C16"),
           drift |-> mp # pots,
           tags |-> {"pots.n" \o ToString(ln.n)} \cup (IF IsScaled(ln) THEN {"pots.hugeAmounts"} ELSE {}) \cup (IF \E k \in 1..Len(pots) : Len(pots[k].levels) > 1 THEN {"pots.merged"} ELSE {})
                    \cup (IF Len(pots) >= 3 THEN {"pots.threeOrMore"} ELSE {})]
     ELSE LET s == Fn(ln, ln.s)
              chg == Fn(ln, ln.chg)
              score == [i \in S |-> IF f[i] THEN 0 ELSE s[i]]
              m == Settle(mp, score, S)
              tie == \E p, q \in S : p # q /\ ~f[p] /\ ~f[q] /\ s[p] = s[q]
          IN [bad |-> (IF "C02" \in Props THEN PP!FailedC02(S, c, f, s, chg) ELSE {})
                      \cup (IF "C16" \in Props THEN PP!FailedC16(S, c, f, pots) ELSE {}),
              drift |-> (mp # pots) \/ (m.chg # chg),
              tags |-> {"settle.n" \o ToString(ln.n)} \cup (IF tie THEN {"settle.tie"} ELSE {})
                       \cup (IF \E k \in 1..Len(pots) : Len(pots[k].levels) > 1 THEN {"settle.mergedLevels"} ELSE {})
                       \cup (IF \E p \in S : f[p] /\ c[p] > 0 THEN {"settle.foldedContribution"} ELSE {})]

Bump(cc, T) == [k \in (DOMAIN cc) \cup T |-> (IF k \in DOMAIN cc THEN cc[k] ELSE 0) + (IF k \in T THEN 1 ELSE 0)]
Init == l = 0 /\ viol = {} /\ drift = {} /\ cnt = [k \in {} |-> 0]
Step ==
  /\ l < Len(Trace) /\ l' = l + 1
  /\ LET r == Check(Trace[l + 1]) IN
     /\ viol' = viol \cup {<<l + 1, nm>> : nm \in {x \in r.bad : Cardinality({w \in viol : w[2] = x}) < MaxViol}}
     /\ drift' = IF r.drift /\ Cardinality(drift) < MaxViol THEN drift \cup {l + 1} ELSE drift
     /\ cnt' = Bump(cnt, r.tags)
  /\ (l + 1 = Len(Trace)) =>
        PrintT(<<"RESULT", ToJson([lines |-> Len(Trace), viol |-> viol', drift |-> drift', cnt |-> cnt'])>>)
Spec == Init /\ [][Step]_<<l, viol, drift, cnt>>
=============================================================================

---------------------------- MODULE SeatManager ----------------------------
(***************************************************************************)
(* Precise model of seat_manager/seat_manager.go: seats, button, blinds.    *)
(*   m = [max, seat : 0..max-1 -> [player (NULL or id), active, reserved],  *)
(*        dealer, sb, bb (NULL or seat id), crashed]                        *)
(* `crashed` is set where the Go code would index a slice at -1 or          *)
(* dereference a nil seat: the model follows the code into the panic.       *)
(* Operations return [m, res]; res is "" or the name of the error returned, *)
(* or "PANIC".  Join(-1) picks its seat with math/rand: JoinAnyChoices is   *)
(* the set the code may pick from (bound from the trace when validating).   *)
(***************************************************************************)
EXTENDS Integers, Sequences, FiniteSets, TLC
NULL == -1

SeatIds(m) == 0 .. (m.max - 1)
\* getNormalizeSeats(start): the seat ids in table order starting at `start`
Norm(m, start) == [k \in 1..m.max |-> (start + k - 1) % m.max]
Playable(m, s) == m.seat[s].active /\ ~m.seat[s].reserved /\ m.seat[s].player # NULL
PlayableSet(m) == {s \in SeatIds(m) : Playable(m, s)}
NonEmptyCount(m) == Cardinality({s \in SeatIds(m) : ~m.seat[s].reserved /\ m.seat[s].player # NULL})

\* findActivePlayer(seats): 1-based index of the first playable seat of the sequence, 0 if none (Go: nil, -1)
FindActive(m, seq) ==
  LET idx == {k \in 1..Len(seq) : Playable(m, seq[k])}
  IN IF idx = {} THEN 0 ELSE CHOOSE k \in idx : \A j \in idx : k <= j

SetActive(m, S, v) == [m EXCEPT !.seat = [s \in SeatIds(m) |-> IF s \in S THEN [m.seat[s] EXCEPT !.active = v] ELSE m.seat[s]]]
From(seq, from) == SubSeq(seq, from, Len(seq))     \* Go seq[from-1:]
SeqSet(seq) == {seq[k] : k \in 1..Len(seq)}

\* nextDealer: returns [m, d] (d = NULL when the Go function returns nil)
NextDealer(m) ==
  IF Cardinality(PlayableSet(m)) = 1
  THEN IF NonEmptyCount(m) <= 1 THEN [m |-> m, d |-> NULL]
       ELSE \* one playable seat: make it the dealer and let every waiting (sat-in) player in
            LET d == CHOOSE s \in PlayableSet(m) : TRUE
                rest == From(Norm(m, d), 2)
                letin == {s \in SeqSet(rest) : ~m.seat[s].reserved /\ m.seat[s].player # NULL}
            IN [m |-> [SetActive(m, letin, TRUE) EXCEPT !.dealer = d], d |-> d]
  ELSE LET seats == IF m.dealer = NULL THEN Norm(m, 0) ELSE From(Norm(m, m.dealer), 2)
           k == FindActive(m, seats)
       IN IF k # 0
          THEN \* activate the seats the button moves over
               [m |-> [SetActive(m, {seats[j] : j \in 1..(k - 1)}, TRUE) EXCEPT !.dealer = seats[k]], d |-> seats[k]]
          ELSE \* nobody found: activate everything after the old dealer and try again
               LET m1 == SetActive(m, SeqSet(seats), TRUE)
                   k2 == FindActive(m1, seats)
                   d == IF k2 = 0 THEN NULL ELSE seats[k2]
               IN [m |-> [m1 EXCEPT !.dealer = d], d |-> d]

\* renewSeatStatus: small blind, big blind, deactivate empty seats between dealer and BB, activate the rest
RenewOnce(m) ==
  LET orig == Norm(m, m.dealer)
      two == Cardinality(PlayableSet(m)) = 2
      s1 == IF two THEN orig ELSE From(orig, 2)
      kSB == IF two THEN 1 ELSE FindActive(m, s1)
  IN IF kSB = 0 THEN [m EXCEPT !.sb = NULL, !.crashed = TRUE]         \* seats[-1:] panics
     ELSE LET sb == IF two THEN m.dealer ELSE s1[kSB]
              s2 == IF two THEN orig ELSE From(s1, kSB)
              s3 == From(s2, 2)
              kBB == FindActive(m, s3)
          IN IF kBB = 0 THEN [m EXCEPT !.sb = sb, !.bb = NULL, !.crashed = TRUE]
             ELSE LET bb == s3[kBB]
                      s4 == From(s3, kBB)
                      kb == CHOOSE k \in 1..Len(orig) : orig[k] = bb
                      deact == {orig[k] : k \in 1..(kb - 1)} \cap {s \in SeatIds(m) : m.seat[s].player = NULL}
                      m1 == SetActive(m, deact, FALSE)
                      m2 == SetActive(m1, SeqSet(From(s4, 2)), TRUE)
                  IN [m2 EXCEPT !.sb = sb, !.bb = bb]

\* waiting players behind the big blind are let in by the "activate the rest" step: when that turns a
\* heads-up table into three or more players the blinds are set again (the dealer is then not the small blind)
RenewSeatStatus(m) ==
  LET headsUp == Cardinality(PlayableSet(m)) = 2
      r == RenewOnce(m)
  IN IF ~r.crashed /\ headsUp /\ Cardinality(PlayableSet(r)) > 2 THEN RenewOnce(r) ELSE r

R(m, res) == [m |-> m, res |-> res]
OpJoinAt(m, s, p) ==
  IF s >= m.max \/ s < -1 THEN R(m, "ErrInvalidSeat")
  ELSE IF m.seat[s].player # NULL THEN R(m, "ErrNotAvailable")
  ELSE R([m EXCEPT !.seat[s].reserved = TRUE, !.seat[s].player = p], "")
AvailActive(m) == {s \in SeatIds(m) : ~m.seat[s].reserved /\ m.seat[s].player = NULL /\ m.seat[s].active}
AvailAlt(m) == {s \in SeatIds(m) : ~m.seat[s].reserved /\ m.seat[s].player = NULL /\ ~m.seat[s].active}
JoinAnyChoices(m) == IF AvailActive(m) # {} THEN AvailActive(m) ELSE AvailAlt(m)
OpSitIn(m, s) == IF s \notin SeatIds(m) THEN R(m, "ErrNotFoundSeat") ELSE R([m EXCEPT !.seat[s].reserved = FALSE], "")
OpReserve(m, s) == IF s \notin SeatIds(m) THEN R(m, "ErrNotFoundSeat") ELSE R([m EXCEPT !.seat[s].reserved = TRUE], "")
OpLeave(m, s) ==
  IF s \notin SeatIds(m) THEN R(m, "ErrNotFoundSeat")
  ELSE IF m.seat[s].player = NULL THEN R(m, "ErrEmptySeat")
  ELSE R([m EXCEPT !.seat[s].player = NULL, !.seat[s].reserved = FALSE], "")
\* Reset: every seat becomes a fresh, empty, active, non-reserved seat.  The Go code replaces the Seat OBJECTS and leaves
\* its dealer / small blind / big blind pointers on the old ones; every later use goes through the seat's ID, so the
\* positions stay where they were (deviation ResetKeepsPositions)
OpReset(m) == R([m EXCEPT !.seat = [s \in SeatIds(m) |-> [player |-> NULL, active |-> TRUE, reserved |-> FALSE]]], "")
OpNext(m) ==
  LET nd == NextDealer(m) IN
  IF nd.d = NULL THEN R(nd.m, "ErrInsufficientNumberOfPlayers")
  ELSE IF Cardinality(PlayableSet(nd.m)) < 2 THEN R(nd.m, "ErrInsufficientNumberOfPlayers")
  ELSE LET m2 == RenewSeatStatus(nd.m) IN IF m2.crashed THEN R(m2, "PANIC") ELSE R(m2, "")

(* ---- match/table.go: match.Table, a client of the seat manager (Join, ApplySeatChanges) ---- *)
\* SetDealer / SetSmallBlind / SetBigBlind: sm.seats[id], i.e. nil for an id that is not a seat
PosOf(m, id) == IF id \in SeatIds(m) THEN id ELSE NULL
\* sc = [dealer, sb, bb, left (set of seat ids reported "left")]; ids of `left` outside the table make the Go code
\* dereference a nil seat (PANIC) - the drivers pass in-range ids only
OpApplySeatChanges(m, sc) ==
  LET m1 == IF sc.dealer > -1 /\ sc.sb > -1 /\ sc.bb > -1
            THEN [m EXCEPT !.dealer = PosOf(m, sc.dealer), !.sb = PosOf(m, sc.sb), !.bb = PosOf(m, sc.bb)] ELSE m
  IN IF \E s \in sc.left : s \notin SeatIds(m) THEN R([m1 EXCEPT !.crashed = TRUE], "PANIC")
     ELSE R([m1 EXCEPT !.seat = [s \in SeatIds(m) |-> IF s \in sc.left /\ m.seat[s].player # NULL
                                                     THEN [m.seat[s] EXCEPT !.player = NULL, !.reserved = FALSE] ELSE m.seat[s]]], "")

NewSM(max) == [max |-> max, seat |-> [s \in 0..(max - 1) |-> [player |-> NULL, active |-> TRUE, reserved |-> FALSE]],
               dealer |-> NULL, sb |-> NULL, bb |-> NULL, crashed |-> FALSE]
=============================================================================

------------------------------- MODULE SimSeat -------------------------------
(* Script generation for the seat manager: TLC -simulate walks the precise    *)
(* model SeatManager and prints each history as a JSON script for seat-replay *)
EXTENDS SeatManager, Json
CONSTANTS MaxSet
VARIABLES m, hist, np
Init == m = [max |-> 0] /\ hist = <<>> /\ np = 1
Rec(name, s, p) == hist' = Append(hist, [op |-> name, seat |-> s, p |-> p])
Do(name, s, p, r) == m' = r.m /\ Rec(name, s, p) /\ np' = (IF name = "Join" THEN np + 1 ELSE np)
Next ==
  IF m.max = 0 THEN \E mx \in MaxSet : m' = NewSM(mx) /\ hist' = <<[max |-> mx]>> /\ np' = np
  ELSE /\ ~m.crashed /\ Len(hist) < 55
       /\ \/ \E s \in 0..(m.max - 1) : Do("Join", s, np, OpJoinAt(m, s, np))
          \/ \E s \in 0..(m.max - 1) : m.seat[s].player # NULL /\ m.seat[s].reserved /\ Do("SitIn", s, 0, OpSitIn(m, s))
          \/ \E s \in 0..(m.max - 1) : m.seat[s].player # NULL /\ m.seat[s].reserved /\ Do("SitIn", s, 0, OpSitIn(m, s))
          \/ \E s \in 0..(m.max - 1) : m.seat[s].player # NULL /\ Do("Leave", s, 0, OpLeave(m, s))
          \/ \E s \in -1..m.max : Len(hist) % 5 = 0 /\ (Do("Reserve", s, 0, OpReserve(m, s)) \/ Do("Leave", s, 0, OpLeave(m, s)))
          \/ Do("Next", -1, 0, OpNext(m))
          \/ Do("Next", -1, 0, OpNext(m)) /\ Len(hist) % 2 = 0
          \/ Len(hist) % 17 = 0 /\ Do("Reset", -1, 0, OpReset(m))
Spec == Init /\ [][Next]_<<m, hist, np>>
Dump == Len(hist) >= 55 => PrintT(<<"SCRIPT", ToJson(hist)>>)
=============================================================================

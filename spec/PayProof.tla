----------------------------- MODULE PayProof -----------------------------
(***************************************************************************)
(* TLAPS proof about the MODEL of player.pay (Pay of HoldemChips.tla, which *)
(* Holdem.tla extends), the one operator through which every ante, blind,   *)
(* call, bet, raise and all-in moves chips: for ANY game state with the     *)
(* record structure of the model (Struct) whose players satisfy the chip    *)
(* identity  bankroll = stack + wager + pot,  init = stack + wager, all >= 0*)
(* (ChipIdentity: C01, first sentence) and ANY amount >= 0, the state after Pay  *)
(* satisfies both again, nobody else's chips move, the payer's bankroll,    *)
(* pot and street-start stack are untouched, his wager does not go down and *)
(* the round pot grows by exactly what he put in.  MCHoldem checks Struct   *)
(* and ChipIdentity on every reachable state of its scopes (invariant StructOK). *)
(***************************************************************************)
EXTENDS HoldemChips, TLAPS


LEMMA ResetActedKeeps ==
  ASSUME NEW g, Struct(g)
  PROVE  LET t == ResetActed(g) IN Struct(t) /\ t.roundPot = g.roundPot /\ t.n = g.n /\ \A j \in Seats(g) : SameChips(g.P[j], t.P[j])
  BY DEF ResetActed, Struct, SameChips, Seats, GF, PF

LEMMA SetRaiserKeeps ==
  ASSUME NEW g, Struct(g), NEW i \in Seats(g)
  PROVE  LET t == [g EXCEPT !.raiser = i] IN Struct(t) /\ t.roundPot = g.roundPot /\ t.n = g.n /\ t.P = g.P
  BY DEF Struct, Seats, GF, PF

LEMMA SetVpipKeeps ==
  ASSUME NEW g, Struct(g), NEW i \in Seats(g)
  PROVE  LET t == [g EXCEPT !.P[i].vpip = TRUE] IN Struct(t) /\ t.roundPot = g.roundPot /\ t.n = g.n /\ \A j \in Seats(g) : SameChips(g.P[j], t.P[j])
  BY DEF Struct, SameChips, Seats, GF, PF

LEMMA SetActedKeeps ==
  ASSUME NEW g, Struct(g), NEW i \in Seats(g)
  PROVE  LET t == [g EXCEPT !.P[i].acted = TRUE] IN Struct(t) /\ t.roundPot = g.roundPot /\ t.n = g.n /\ \A j \in Seats(g) : SameChips(g.P[j], t.P[j])
  BY DEF Struct, SameChips, Seats, GF, PF

LEMMA SetRoundPotKeeps ==
  ASSUME NEW g, Struct(g), NEW v
  PROVE  LET t == [g EXCEPT !.roundPot = v] IN Struct(t) /\ t.roundPot = v /\ t.n = g.n /\ t.P = g.P /\ t.meta = g.meta /\ t.prs = g.prs /\ t.maxWager = g.maxWager /\ t.cw = g.cw
  BY DEF Struct, Seats, GF, PF
LEMMA SetMaxWagerKeeps ==
  ASSUME NEW g, Struct(g), NEW v
  PROVE  LET t == [g EXCEPT !.maxWager = v] IN Struct(t) /\ t.roundPot = g.roundPot /\ t.n = g.n /\ t.P = g.P /\ t.cw = g.cw
  BY DEF Struct, Seats, GF, PF
LEMMA SetDidKeeps ==
  ASSUME NEW g, Struct(g), NEW i \in Seats(g), NEW v
  PROVE  LET t == [g EXCEPT !.P[i].did = v] IN Struct(t) /\ t.roundPot = g.roundPot /\ t.n = g.n /\ t.cw = g.cw /\ \A j \in Seats(g) : SameChips(g.P[j], t.P[j])
  BY DEF Struct, SameChips, Seats, GF, PF
LEMMA SetWagerKeeps ==
  ASSUME NEW g, Struct(g), NEW i \in Seats(g), NEW v
  PROVE  LET t == [g EXCEPT !.P[i].wager = v] IN
         /\ Struct(t) /\ t.roundPot = g.roundPot /\ t.n = g.n /\ t.cw = g.cw
         /\ \A j \in Seats(g) \ {i} : SameChips(g.P[j], t.P[j])
         /\ t.P[i].wager = v /\ t.P[i].stack = g.P[i].stack /\ t.P[i].pot = g.P[i].pot /\ t.P[i].init = g.P[i].init /\ t.P[i].bankroll = g.P[i].bankroll
  BY DEF Struct, SameChips, Seats, GF, PF
LEMMA SetStackKeeps ==
  ASSUME NEW g, Struct(g), NEW i \in Seats(g), NEW v
  PROVE  LET t == [g EXCEPT !.P[i].stack = v] IN
         /\ Struct(t) /\ t.roundPot = g.roundPot /\ t.n = g.n /\ t.cw = g.cw
         /\ \A j \in Seats(g) \ {i} : SameChips(g.P[j], t.P[j])
         /\ t.P[i].stack = v /\ t.P[i].wager = g.P[i].wager /\ t.P[i].pot = g.P[i].pot /\ t.P[i].init = g.P[i].init /\ t.P[i].bankroll = g.P[i].bankroll
  BY DEF Struct, SameChips, Seats, GF, PF

LEMMA SameChipsTrans ==
  ASSUME NEW a, NEW b, NEW c, SameChips(a, b), SameChips(b, c) PROVE SameChips(a, c)
  BY DEF SameChips

LEMMA BecomeRaiserKeeps ==
  ASSUME NEW g, Struct(g), NEW i \in Seats(g)
  PROVE  LET t == BecomeRaiser(g, i) IN Struct(t) /\ t.roundPot = g.roundPot /\ t.n = g.n /\ \A j \in Seats(g) : SameChips(g.P[j], t.P[j])
<1> DEFINE g1 == IF g.P[i].wager > 0 THEN [g EXCEPT !.P[i].vpip = TRUE] ELSE g
           g1r == [g1 EXCEPT !.raiser = i]
           g2 == ResetActed(g1r)
           t == [g2 EXCEPT !.P[i].acted = TRUE]
<1>1. Struct(g1) /\ g1.roundPot = g.roundPot /\ g1.n = g.n /\ \A j \in Seats(g) : SameChips(g.P[j], g1.P[j])
  BY SetVpipKeeps DEF SameChips
<1>2. Seats(g1) = Seats(g)
  BY <1>1 DEF Seats
<1>3. Struct(g1r) /\ g1r.roundPot = g.roundPot /\ g1r.n = g.n /\ g1r.P = g1.P
  <2> HIDE DEF g1
  <2> QED BY <1>1, <1>2, SetRaiserKeeps
<1>4. Seats(g1r) = Seats(g)
  BY <1>3 DEF Seats
<1>5. Struct(g2) /\ g2.roundPot = g.roundPot /\ g2.n = g.n /\ \A j \in Seats(g) : SameChips(g1r.P[j], g2.P[j])
  <2> HIDE DEF g1r
  <2> QED BY <1>3, <1>4, ResetActedKeeps
<1>6. Seats(g2) = Seats(g)
  BY <1>5 DEF Seats
<1>7. Struct(t) /\ t.roundPot = g.roundPot /\ t.n = g.n /\ \A j \in Seats(g) : SameChips(g2.P[j], t.P[j])
  <2> HIDE DEF g2
  <2> QED BY <1>5, <1>6, SetActedKeeps
<1>8. \A j \in Seats(g) : SameChips(g.P[j], t.P[j])
  <2> HIDE DEF g1, g1r, g2, t
  <2> QED BY <1>1, <1>3, <1>5, <1>7, SameChipsTrans
<1>9. BecomeRaiser(g, i) = t
  BY DEF BecomeRaiser
<1> HIDE DEF g1, g1r, g2, t
<1> QED BY <1>7, <1>8, <1>9


THEOREM PayKeepsChips ==
  ASSUME NEW g, Struct(g), ChipIdentity(g), NEW i \in Seats(g), NEW chips \in Int, chips >= 0, NEW isWager \in BOOLEAN
  PROVE  LET t == Pay(g, i, chips, isWager) IN
         /\ Struct(t) /\ ChipIdentity(t) /\ t.n = g.n
         /\ \A j \in Seats(g) \ {i} : SameChips(g.P[j], t.P[j])
         /\ t.P[i].bankroll = g.P[i].bankroll /\ t.P[i].pot = g.P[i].pot /\ t.P[i].init = g.P[i].init
         /\ t.P[i].wager >= g.P[i].wager
         /\ t.roundPot - g.roundPot = t.P[i].wager - g.P[i].wager
<1> DEFINE p == g.P[i]
<1>0. PlayerOK(p) /\ g.roundPot \in Int
  BY DEF ChipIdentity
<1>1. CASE p.stack <= chips
  <2> DEFINE rp == g.roundPot + (p.init - p.wager)
             g1 == [g EXCEPT !.roundPot = rp,
                             !.maxWager = IF g.meta.limit = "pot" THEN rp + g.prs ELSE g.maxWager,
                             !.P[i].did = "allin", !.P[i].wager = p.init, !.P[i].stack = 0]
  <2>1. /\ Struct(g1) /\ g1.roundPot = rp /\ g1.n = g.n
        /\ \A j \in Seats(g) \ {i} : SameChips(g.P[j], g1.P[j])
        /\ g1.P[i].wager = p.init /\ g1.P[i].stack = 0 /\ g1.P[i].pot = p.pot /\ g1.P[i].init = p.init /\ g1.P[i].bankroll = p.bankroll
    <3> DEFINE mw == IF g.meta.limit = "pot" THEN rp + g.prs ELSE g.maxWager
               ga == [g EXCEPT !.roundPot = rp]
               gb == [ga EXCEPT !.maxWager = mw]
               gc == [gb EXCEPT !.P[i].did = "allin"]
               gd == [gc EXCEPT !.P[i].wager = p.init]
               ge == [gd EXCEPT !.P[i].stack = 0]
    <3>1. Struct(ga) /\ ga.roundPot = rp /\ ga.n = g.n /\ ga.P = g.P
      BY SetRoundPotKeeps
    <3>2. Struct(gb) /\ gb.roundPot = rp /\ gb.n = g.n /\ gb.P = g.P
      <4> HIDE DEF ga, mw, rp
      <4> QED BY <3>1, SetMaxWagerKeeps
    <3>3. Seats(gb) = Seats(g)
      BY <3>2 DEF Seats
    <3>4. Struct(gc) /\ gc.roundPot = rp /\ gc.n = g.n /\ \A j \in Seats(g) : SameChips(g.P[j], gc.P[j])
      <4> HIDE DEF gb, rp
      <4> QED BY <3>2, <3>3, SetDidKeeps
    <3>5. Seats(gc) = Seats(g)
      BY <3>4 DEF Seats
    <3>6. /\ Struct(gd) /\ gd.roundPot = rp /\ gd.n = g.n
          /\ \A j \in Seats(g) \ {i} : SameChips(gc.P[j], gd.P[j])
          /\ gd.P[i].wager = p.init /\ gd.P[i].stack = gc.P[i].stack /\ gd.P[i].pot = gc.P[i].pot /\ gd.P[i].init = gc.P[i].init /\ gd.P[i].bankroll = gc.P[i].bankroll
      <4> HIDE DEF gc, rp
      <4> QED BY <3>4, <3>5, SetWagerKeeps
    <3>7. Seats(gd) = Seats(g)
      BY <3>6 DEF Seats
    <3>8. /\ Struct(ge) /\ ge.roundPot = rp /\ ge.n = g.n
          /\ \A j \in Seats(g) \ {i} : SameChips(gd.P[j], ge.P[j])
          /\ ge.P[i].stack = 0 /\ ge.P[i].wager = gd.P[i].wager /\ ge.P[i].pot = gd.P[i].pot /\ ge.P[i].init = gd.P[i].init /\ ge.P[i].bankroll = gd.P[i].bankroll
      <4> HIDE DEF gd, rp
      <4> QED BY <3>6, <3>7, SetStackKeeps
    <3>9. g1 = ge
      OBVIOUS
    <3>10. \A j \in Seats(g) \ {i} : SameChips(g.P[j], ge.P[j])
      <4> HIDE DEF ga, gb, gc, gd, ge, rp, mw
      <4> QED BY <3>4, <3>6, <3>8, SameChipsTrans
    <3>11. ge.P[i].wager = p.init /\ ge.P[i].stack = 0 /\ ge.P[i].pot = p.pot /\ ge.P[i].init = p.init /\ ge.P[i].bankroll = p.bankroll
      <4> HIDE DEF ga, gb, gc, gd, ge, rp, mw
      <4> QED BY <3>4, <3>6, <3>8 DEF SameChips
    <3> HIDE DEF ga, gb, gc, gd, ge, g1, mw
    <3> QED BY <3>8, <3>9, <3>10, <3>11
  <2>2. Seats(g1) = Seats(g)
    BY <2>1 DEF Seats
  <2>3. PICK t : t = Pay(g, i, chips, isWager)
    OBVIOUS
  <2>4. Struct(t) /\ t.roundPot = rp /\ t.n = g.n /\ \A j \in Seats(g) : SameChips(g1.P[j], t.P[j])
    <3>1. CASE ~isWager
      BY <3>1, <2>3, <1>1, <2>1 DEF Pay, SameChips
    <3>2. CASE isWager
      <4> DEFINE g2 == IF p.init > g.cw THEN [g1 EXCEPT !.cw = p.init] ELSE g1
      <4>1. Struct(g2) /\ g2.roundPot = rp /\ g2.n = g.n /\ g2.P = g1.P
        BY <2>1 DEF Struct, Seats, GF, PF
      <4>2. Seats(g2) = Seats(g)
        BY <4>1 DEF Seats
      <4>3. t = BecomeRaiser(g2, i) \/ t = ResetActed(g2)
        <5>1. Pay(g, i, chips, isWager) = IF p.init - g.cw >= g.cw + g.prs THEN BecomeRaiser(g2, i) ELSE ResetActed(g2)
          BY <3>2, <1>1 DEF Pay
        <5> QED BY <2>3, <5>1
      <4> HIDE DEF g1, g2, rp
      <4> QED BY <4>1, <4>2, <4>3, ResetActedKeeps, BecomeRaiserKeeps
    <3> QED BY <3>1, <3>2
  <2> HIDE DEF g1
  <2>5. \A j \in Seats(g) \ {i} : SameChips(g.P[j], t.P[j])
    BY <2>1, <2>4, SameChipsTrans
  <2>6. t.P[i].wager = p.init /\ t.P[i].stack = 0 /\ t.P[i].pot = p.pot /\ t.P[i].init = p.init /\ t.P[i].bankroll = p.bankroll
    BY <2>1, <2>4 DEF SameChips
  <2>7. ChipIdentity(t)
    <3>1. Seats(t) = Seats(g)
      BY <2>4 DEF Seats
    <3>2. \A j \in Seats(g) \ {i} : PlayerOK(t.P[j])
      BY <2>5 DEF ChipIdentity, PlayerOK, SameChips
    <3>3. PlayerOK(t.P[i])
      BY <2>6, <1>0 DEF PlayerOK
    <3>4. t.roundPot \in Int
      BY <2>4, <1>0 DEF PlayerOK
    <3> QED BY <3>1, <3>2, <3>3, <3>4 DEF ChipIdentity
  <2> QED BY <2>3, <2>4, <2>5, <2>6, <2>7, <1>0 DEF PlayerOK
<1>2. CASE p.stack > chips
  <2> DEFINE w == p.wager + chips
             rp == g.roundPot + chips
             g1 == [g EXCEPT !.P[i].wager = w, !.P[i].stack = p.init - w, !.roundPot = rp,
                             !.maxWager = IF g.meta.limit = "pot" THEN rp + g.prs ELSE g.maxWager]
  <2>1. /\ Struct(g1) /\ g1.roundPot = rp /\ g1.n = g.n
        /\ \A j \in Seats(g) \ {i} : SameChips(g.P[j], g1.P[j])
        /\ g1.P[i].wager = w /\ g1.P[i].stack = p.init - w /\ g1.P[i].pot = p.pot /\ g1.P[i].init = p.init /\ g1.P[i].bankroll = p.bankroll
    BY DEF Struct, Seats, GF, PF, SameChips
  <2>2. Seats(g1) = Seats(g)
    BY <2>1 DEF Seats
  <2>3. PICK t : t = Pay(g, i, chips, isWager)
    OBVIOUS
  <2>4. Struct(t) /\ t.roundPot = rp /\ t.n = g.n /\ \A j \in Seats(g) : SameChips(g1.P[j], t.P[j])
    <3> DEFINE g2 == [g1 EXCEPT !.cw = w]
    <3>1. Struct(g2) /\ g2.roundPot = rp /\ g2.n = g.n /\ g2.P = g1.P
      BY <2>1 DEF Struct, Seats, GF, PF
    <3>2. Seats(g2) = Seats(g)
      BY <3>1 DEF Seats
    <3>3. t = BecomeRaiser(g2, i) \/ t = g1
      <4>1. ~(p.stack <= chips)
        BY <1>2, <1>0 DEF PlayerOK
      <4>2. Pay(g, i, chips, isWager) = IF isWager /\ g.cw < w THEN BecomeRaiser([g1 EXCEPT !.cw = w], i) ELSE g1
        BY <4>1 DEF Pay
      <4> QED BY <2>3, <4>2
    <3> HIDE DEF g1, g2, rp, w
    <3> QED BY <3>1, <3>2, <3>3, <2>1, <2>2, BecomeRaiserKeeps DEF SameChips
  <2> HIDE DEF g1
  <2>5. \A j \in Seats(g) \ {i} : SameChips(g.P[j], t.P[j])
    BY <2>1, <2>4, SameChipsTrans
  <2>6. t.P[i].wager = w /\ t.P[i].stack = p.init - w /\ t.P[i].pot = p.pot /\ t.P[i].init = p.init /\ t.P[i].bankroll = p.bankroll
    BY <2>1, <2>4 DEF SameChips
  <2>7. ChipIdentity(t)
    <3>1. Seats(t) = Seats(g)
      BY <2>4 DEF Seats
    <3>2. \A j \in Seats(g) \ {i} : PlayerOK(t.P[j])
      BY <2>5 DEF ChipIdentity, PlayerOK, SameChips
    <3>3. PlayerOK(t.P[i])
      BY <2>6, <1>0, <1>2 DEF PlayerOK
    <3>4. t.roundPot \in Int
      BY <2>4, <1>0 DEF PlayerOK
    <3> QED BY <3>1, <3>2, <3>3, <3>4 DEF ChipIdentity
  <2> QED BY <2>3, <2>4, <2>5, <2>6, <2>7, <1>0, <1>2 DEF PlayerOK
<1> QED BY <1>1, <1>2, <1>0 DEF PlayerOK

\* the other chip-moving operator inside a hand: at the end of a betting round the wagers go to the pot
THEOREM RoundEndKeepsChips ==
  ASSUME NEW g, Struct(g), ChipIdentity(g)
  PROVE  LET t == ResetAllPlayerStatus(g) IN
         /\ Struct(t) /\ ChipIdentity(t) /\ t.n = g.n /\ t.roundPot = g.roundPot
         /\ \A j \in Seats(g) : /\ t.P[j].bankroll = g.P[j].bankroll /\ t.P[j].stack = g.P[j].stack
                                  /\ t.P[j].wager = 0 /\ t.P[j].pot = g.P[j].pot + g.P[j].wager /\ t.P[j].init = g.P[j].stack
<1> DEFINE t == ResetAllPlayerStatus(g)
<1>1. /\ Struct(t) /\ t.n = g.n /\ t.roundPot = g.roundPot
      /\ \A j \in Seats(g) : /\ t.P[j].bankroll = g.P[j].bankroll /\ t.P[j].stack = g.P[j].stack
                               /\ t.P[j].wager = 0 /\ t.P[j].pot = g.P[j].pot + g.P[j].wager /\ t.P[j].init = g.P[j].stack
  BY DEF ResetAllPlayerStatus, Struct, Seats, GF, PF
<1>2. Seats(t) = Seats(g)
  BY <1>1 DEF Seats
<1>3. ChipIdentity(t)
  <2> HIDE DEF t
  <2> QED BY <1>1, <1>2 DEF ChipIdentity, PlayerOK
<1> QED BY <1>1, <1>3
=============================================================================

---------------------------- MODULE HoldemTrace ----------------------------
(***************************************************************************)
(* Trace validation for the hand engine: executions RECORDED FROM THE REAL  *)
(* IMPLEMENTATION (harness/cmd/vdrive, one NDJSON line per public call,     *)
(* written after the call returned, with the full projected state) are      *)
(* checked against                                                          *)
(*   (1) the property layer  HoldemProps  - a failed clause is a VIOLATION  *)
(*       candidate (recorded in `viol` with its line number);               *)
(*   (2) the precise model   Holdem       - a step the model does not       *)
(*       reproduce is MODEL-DRIFT (recorded in `drift`), never a verdict.   *)
(* The step relation is pure observation, so the whole file is always       *)
(* consumed; many runs are concatenated, separated by `reset` lines.        *)
(*                                                                          *)
(* line kinds:  reset - a new run / a jump: gs := state, history reset      *)
(*              main  - one call on the run's game: (gs, call, state)       *)
(*              probe - one call on a JSON clone of the current game: a     *)
(*                      side branch of length one; gs is NOT advanced       *)
(***************************************************************************)
EXTENDS HoldemJson
CONSTANTS TraceFile,   \* NDJSON file written by the driver
          Props,       \* property ids whose clauses are evaluated, e.g. {"C05"}
          MaxViol      \* stop collecting after this many failed clauses
VARIABLES l, gs, h, viol, drift, cnt

Trace == ndJsonDeserialize(TraceFile)

\* C10: the heavy clause is evaluated when the board changed (or after a jump); in between the
\* published evaluation must stay what it was
Reeval(ln) == [i \in 0..(ln.state.n - 1) |-> ln.reeval[i + 1]]
C10Bad(g, t, ln, jump) ==
  IF "C10" \notin Props THEN {}
  ELSE (IF (jump \/ BoardChanged(g, t)) /\ Len(t.board) >= 3 THEN C10_fresh(t, Reeval(ln)) ELSE {})
       \cup (IF jump THEN {} ELSE N("C10.stable", C10_stable(g, t)))
       \cup (IF t.ev = "GameClosed" THEN {"C10.showdown:" \o nm : nm \in EngineC02(t)} ELSE {})
Call(ln) == [op |-> ln.op, seat |-> ln.seat, x |-> ln.x, ok |-> ln.err = ""]
Bump(c, S) == [k \in (DOMAIN c) \cup S |-> (IF k \in DOMAIN c THEN c[k] ELSE 0) + (IF k \in S THEN 1 ELSE 0)]
AddViol(v, line, names) == v \cup {<<line, nm>> : nm \in {x \in names : Cardinality({w \in v : w[2] = x}) < MaxViol}}   \* at most MaxViol entries PER CLAUSE: a flood of one clause (a known finding) never hides another

Init == /\ l = 1
        /\ gs = LineGs(Trace[1], <<>>)
        /\ h = HistJump(LineGs(Trace[1], <<>>))
        /\ viol = {} /\ drift = {} /\ cnt = [k \in {} |-> 0]

Step ==
  /\ l < Len(Trace) /\ l' = l + 1
  /\ LET ln == Trace[l + 1]
         t == LineGs(ln, gs.meta.deck)
         o == Call(ln)
     IN IF ln.kind = "reset"
        THEN /\ gs' = t /\ h' = HistJump(t)
             /\ viol' = AddViol(viol, l + 1, FailedState(t, HistJump(t), Props) \cup C10Bad(t, t, ln, TRUE))
             /\ drift' = drift /\ cnt' = Bump(cnt, {"runs"})
        ELSE LET h2 == HistNext(h, gs, t, o)
                 bad == FailedState(t, h2, Props) \cup FailedStep(gs, t, o, h, h2, Props)
                        \cup (IF "C14" \in Props /\ ln.op = "Start" THEN N("C14.shuffle", C14_shuffle(gs, o, ln.shuffled)) ELSE {})
                        \cup C10Bad(gs, t, ln, FALSE)
             IN /\ viol' = AddViol(viol, l + 1, bad)
                /\ drift' = IF (StepOK(gs, ln, t) /\ ("C10" \notin Props \/ ~BoardChanged(gs, t) \/ C10_scoreModel(t)))
                               \/ Cardinality(drift) >= MaxViol THEN drift ELSE drift \cup {l + 1}
                /\ cnt' = Bump(cnt, Exercised(gs, t, o, h, h2) \cup {"lines." \o ln.kind}
                                    \cup (IF BoardChanged(gs, t) /\ Len(t.board) >= 3 THEN {"C10.street" \o ToString(Len(t.board)) \o ".req" \o ToString(t.meta.reqHole) \o "." \o t.meta.ranking} ELSE {}))
                /\ IF ln.kind = "probe" THEN gs' = gs /\ h' = h ELSE gs' = t /\ h' = h2
  /\ (l + 1 = Len(Trace)) =>
        PrintT(<<"RESULT", ToJson([lines |-> Len(Trace), viol |-> viol', drift |-> drift', cnt |-> cnt'])>>)

Spec == Init /\ [][Step]_<<l, gs, h, viol, drift, cnt>>
\* the whole file was consumed (checked by the caller from the RESULT line as well)
Consumed == TLCGet("stats").diameter >= 1
=============================================================================

------------------------------ MODULE PotProps ------------------------------
(***************************************************************************)
(* What C16 (published pots) and C02 (showdown payout) DEMAND, as           *)
(* predicates over plain inputs and outputs - independent of how the code   *)
(* computes them (Pots.tla / Settlement.tla say that).                      *)
(*   S : set of players     c : S -> chips put in     f : S -> folded       *)
(*   s : S -> strength (only of non-folded players is used)                 *)
(*   pots : published pots, sequence of [level, wager, total, contrib]      *)
(*   chg  : S -> chips won (+) or lost (-) at the showdown                  *)
(***************************************************************************)
EXTENDS Integers, Sequences, FiniteSets, TLC

PMin(a, b) == IF a < b THEN a ELSE b
PSum(T, F(_)) ==
  LET RECURSIVE G(_)
      G(U) == IF U = {} THEN 0 ELSE LET x == CHOOSE x \in U : TRUE IN F(x) + G(U \ {x})
  IN G(T)
Asc(T) == \* ascending sequence of a finite set of integers
  LET RECURSIVE G(_)
      G(U) == IF U = {} THEN <<>> ELSE LET m == CHOOSE x \in U : \A y \in U : x <= y IN <<m>> \o G(U \ {m})
  IN G(T)

(* ---------------------------------- C16 ---------------------------------- *)
PrevLevel(pots, k) == IF k = 1 THEN 0 ELSE pots[k - 1].level
\* the eligible players of a published pot: its non-folded contributors (the code also lists
\* folded players, with their whole stake; they are not "eligible players" and are ignored)
Elig(pots, k, S, f) == {p \in (DOMAIN pots[k].contrib) \cap S : ~f[p]}
C16_levels(S, c, f, pots) == \A k \in 2..Len(pots) : pots[k - 1].level < pots[k].level
C16_totals(S, c, f, pots) == \A k \in 1..Len(pots) :
  /\ pots[k].total = PSum(S, LAMBDA p : PMin(c[p], pots[k].level) - PMin(c[p], PrevLevel(pots, k)))
  /\ pots[k].wager = pots[k].level - PrevLevel(pots, k)
C16_eligible(S, c, f, pots) == \A k \in 1..Len(pots) :
  /\ Elig(pots, k, S, f) = {p \in S : ~f[p] /\ c[p] >= pots[k].level}
  /\ \A p \in Elig(pots, k, S, f) : pots[k].contrib[p] = pots[k].wager
  /\ DOMAIN pots[k].contrib \subseteq S
C16_nested(S, c, f, pots) == \A k \in 2..Len(pots) :
  Elig(pots, k, S, f) \subseteq Elig(pots, k - 1, S, f) /\ Elig(pots, k, S, f) # Elig(pots, k - 1, S, f)
C16_sum(S, c, f, pots) == PSum(1..Len(pots), LAMBDA k : pots[k].total) = PSum(S, LAMBDA p : c[p])
\* nothing is placed in a pot above what its owner paid
C16_covered(S, c, f, pots) == (S # {}) => (Len(pots) >= 1 /\ pots[Len(pots)].level = (CHOOSE m \in {c[p] : p \in S} : \A q \in S : c[q] <= m))
FailedC16(S, c, f, pots) ==
  (IF C16_levels(S, c, f, pots) THEN {} ELSE {"C16.levels"}) \cup
  (IF C16_totals(S, c, f, pots) THEN {} ELSE {"C16.totals"}) \cup
  (IF C16_eligible(S, c, f, pots) THEN {} ELSE {"C16.eligible"}) \cup
  (IF C16_nested(S, c, f, pots) THEN {} ELSE {"C16.nested"}) \cup
  (IF C16_sum(S, c, f, pots) THEN {} ELSE {"C16.sum"}) \cup
  (IF C16_covered(S, c, f, pots) THEN {} ELSE {"C16.covered"})

(* ---------------------------------- C02 ---------------------------------- *)
\* layers: the chips between consecutive distinct positive contribution values
Vals(S, c) == Asc({c[p] : p \in S} \ {0})
Payers(S, c, v) == {p \in S : c[p] >= v}
EligL(S, c, f, v) == {p \in Payers(S, c, v) : ~f[p]}
\* a side pot = maximal run of layers with the same eligible set (identified by its layers)
LayerAmt(S, c, k) == LET vs == Vals(S, c) IN vs[k] - (IF k = 1 THEN 0 ELSE vs[k - 1])
LayerTotal(S, c, k) == Cardinality(Payers(S, c, Vals(S, c)[k])) * LayerAmt(S, c, k)
SidePots(S, c, f) == \* set of sets of layer indices, one per distinct non-empty eligible set
  LET vs == Vals(S, c)
      E(k) == EligL(S, c, f, vs[k])
  IN {{k \in 1..Len(vs) : E(k) = E(j)} : j \in {j \in 1..Len(vs) : E(j) # {}}}
PotElig(S, c, f, K) == EligL(S, c, f, Vals(S, c)[CHOOSE k \in K : TRUE])
PotTotal(S, c, K) == PSum(K, LAMBDA k : LayerTotal(S, c, k))
Best(E, s) == {p \in E : \A q \in E : s[q] <= s[p]}
\* (i) a folded player wins nothing: he loses exactly the layers somebody non-folded can win and
\*     gets the uncalled rest of his own chips back
C02_folded(S, c, f, s, chg) == \A p \in S : f[p] =>
  LET vs == Vals(S, c) IN
  chg[p] = 0 - PSum({k \in 1..Len(vs) : c[p] >= vs[k] /\ EligL(S, c, f, vs[k]) # {}}, LAMBDA k : LayerAmt(S, c, k))
\* (ii)-(iv) a non-folded player collects, from every side pot he is among the best of, an equal share
\*     of that pot (shares of one pot differ by at most one chip), and nothing from any other pot
C02_shares(S, c, f, s, chg) == \A p \in S : ~f[p] =>
  LET won == {K \in SidePots(S, c, f) : p \in Best(PotElig(S, c, f, K), s)}
      base == PSum(won, LAMBDA K : PotTotal(S, c, K) \div Cardinality(Best(PotElig(S, c, f, K), s)))
      odd == Cardinality({K \in won : PotTotal(S, c, K) % Cardinality(Best(PotElig(S, c, f, K), s)) # 0})
      got == chg[p] + c[p]
  IN base <= got /\ got <= base + odd
\* tied winners with the same eligibility are treated alike up to the odd chips
C02_ties(S, c, f, s, chg) == \A p, q \in S : (~f[p] /\ ~f[q] /\ s[p] = s[q] /\ c[p] = c[q]) =>
  LET wonp == {K \in SidePots(S, c, f) : p \in Best(PotElig(S, c, f, K), s)}
      odd == Cardinality({K \in wonp : PotTotal(S, c, K) % Cardinality(Best(PotElig(S, c, f, K), s)) # 0})
      d == chg[p] - chg[q]
  IN d <= odd /\ 0 - d <= odd
C02_zeroSum(S, c, f, s, chg) == PSum(S, LAMBDA p : chg[p]) = 0
FailedC02(S, c, f, s, chg) ==
  (IF C02_folded(S, c, f, s, chg) THEN {} ELSE {"C02.folded"}) \cup
  (IF C02_shares(S, c, f, s, chg) THEN {} ELSE {"C02.shares"}) \cup
  (IF C02_ties(S, c, f, s, chg) THEN {} ELSE {"C02.ties"}) \cup
  (IF C02_zeroSum(S, c, f, s, chg) THEN {} ELSE {"C02.zeroSum"})
=============================================================================

--------------------------- MODULE SeatNextProof ---------------------------
(***************************************************************************)
(* TLAPS proof about the MODEL of seat_manager.nextDealer (SeatManager.tla) *)
(* for ANY number of seats: when the seat manager has a dealer and somebody *)
(* other than the dealer can play (and it is not the "exactly one playable  *)
(* seat" case, which lets the waiting players in first), the new dealer is  *)
(* a playable seat other than the old dealer at the smallest clockwise      *)
(* distance from it - i.e. FirstCW(m, PlayableSet(m) \ {m.dealer}, m.dealer)*)
(* of SeatProps (C17: "never stays put, never moves backwards, never skips  *)
(* a player who could play").  TLC checks the same clause on the model for  *)
(* 3, 4 and 5 seats and on every recorded call of the real seat manager;    *)
(* this proof removes the bound on the number of seats at the model level.  *)
(***************************************************************************)
EXTENDS SeatProps, NaturalsInduction, TLAPS

(* ---- arithmetic of seats around the table ---- *)
LEMMA ModSmall == ASSUME NEW n \in Nat \ {0}, NEW a \in 0..(n - 1) PROVE a % n = a
  OBVIOUS
LEMMA ModWrap == ASSUME NEW n \in Nat \ {0}, NEW a \in n..(2 * n - 1) PROVE a % n = a - n
  OBVIOUS
LEMMA ModNeg == ASSUME NEW n \in Nat \ {0}, NEW a \in (-n)..(-1) PROVE a % n = a + n
  OBVIOUS
\* the clockwise distance of another seat is in 1..n-1, and walking that far from d arrives there
LEMMA DistTo == ASSUME NEW n \in Nat \ {0}, NEW d \in 0..(n - 1), NEW x \in 0..(n - 1), x # d
                PROVE LET j == (x - d) % n IN j \in 1..(n - 1) /\ (d + j) % n = x
  <1>1. CASE x > d
    BY <1>1, ModSmall, ModWrap
  <1>2. CASE x < d
    BY <1>2, ModNeg, ModSmall, ModWrap
  <1> QED BY <1>1, <1>2
\* walking k seats from d arrives at a seat of the table, other than d, at distance k
LEMMA WalkFrom == ASSUME NEW n \in Nat \ {0}, NEW d \in 0..(n - 1), NEW k \in 1..(n - 1)
                  PROVE LET x == (d + k) % n IN x \in 0..(n - 1) /\ x # d /\ (x - d) % n = k
  <1>1. CASE d + k < n
    BY <1>1, ModSmall
  <1>2. CASE d + k >= n
    <2>1. d + k \in n..(2 * n - 1)
      BY <1>2
    <2>2. (d + k) % n = d + k - n
      BY <2>1, ModWrap
    <2>3. (d + k - n) - d \in (-n)..(-1)
      OBVIOUS
    <2>4. ((d + k - n) - d) % n = (d + k - n) - d + n
      BY <2>3, ModNeg
    <2> QED BY <2>2, <2>4
  <1> QED BY <1>1, <1>2

(* ---- the seat sequence the button search walks ---- *)
After(m, d) == From(Norm(m, d), 2)
LEMMA AfterLen == ASSUME NEW m, m.max \in Nat \ {0}, NEW d \in Int PROVE Len(After(m, d)) = m.max - 1
  BY DEF After, From, Norm
LEMMA AfterAt == ASSUME NEW m, m.max \in Nat \ {0}, NEW d \in Int, NEW j \in 1..(m.max - 1) PROVE After(m, d)[j] = (d + j) % m.max
  BY DEF After, From, Norm

(* ---- findActivePlayer: the first playable seat of a sequence ---- *)
LEMMA FindActiveSpec ==
  ASSUME NEW m, NEW seq, NEW n \in Nat, Len(seq) = n
  PROVE  LET k == FindActive(m, seq) IN
         /\ k \in 0..n
         /\ (k = 0) <=> (\A j \in 1..n : ~Playable(m, seq[j]))
         /\ (k # 0) => (Playable(m, seq[k]) /\ \A j \in 1..(k - 1) : ~Playable(m, seq[j]))
<1> DEFINE idx == {k \in 1..Len(seq) : Playable(m, seq[k])}
<1>1. CASE idx = {}
  BY <1>1 DEF FindActive
<1>2. CASE idx # {}
  <2>1. PICK n0 \in idx : TRUE
    BY <1>2
  <2> DEFINE P(x) == x \in idx
  <2>2. \E mn \in Nat : P(mn) /\ \A k \in 0..(mn - 1) : ~P(k)
    <3>1. n0 \in Nat /\ P(n0)
      BY <2>1
    <3> HIDE DEF P
    <3> QED BY <3>1, SmallestNatural
  <2>3. \E k \in idx : \A j \in idx : k <= j
    BY <2>2
  <2> DEFINE c == FindActive(m, seq)
  <2>4. c = CHOOSE k \in idx : \A j \in idx : k <= j
    BY <1>2 DEF FindActive
  <2>5. c \in idx /\ \A j \in idx : c <= j
    BY <2>3, <2>4
  <2>6. c \in 1..n /\ Playable(m, seq[c])
    BY <2>5
  <2>7. \A j \in 1..(c - 1) : ~Playable(m, seq[j])
    <3> SUFFICES ASSUME NEW j \in 1..(c - 1), Playable(m, seq[j]) PROVE FALSE
      OBVIOUS
    <3>1. j \in 1..n /\ j < c
      BY <2>6
    <3>2. j \in idx
      BY <3>1
    <3>3. c <= j
      BY <3>2, <2>5
    <3> QED BY <3>1, <3>3, <2>6
  <2>8. c # 0 /\ ~(\A j \in 1..n : ~Playable(m, seq[j]))
    BY <2>6
  <2> HIDE DEF idx
  <2> QED BY <2>6, <2>7, <2>8
<1> QED BY <1>1, <1>2

(* ---- the theorem ---- *)
THEOREM ButtonMovesToTheNextPlayer ==
  ASSUME NEW m, m.max \in Nat \ {0}, m.dealer \in 0..(m.max - 1),
         Cardinality(PlayableSet(m)) # 1,
         NEW x \in PlayableSet(m), x # m.dealer
  PROVE  LET d == NextDealer(m).d IN
         /\ d \in PlayableSet(m) /\ d # m.dealer
         /\ \A y \in PlayableSet(m) : y # m.dealer => (d - m.dealer) % m.max <= (y - m.dealer) % m.max
<1> DEFINE n == m.max
           dl == m.dealer
           seats == After(m, dl)
           k == FindActive(m, seats)
<1>0. dl # NULL
  BY DEF NULL
<1>1. Len(seats) = n - 1 /\ \A j \in 1..(n - 1) : seats[j] = (dl + j) % n
  BY AfterLen, AfterAt
<1>2. /\ k \in 0..(n - 1)
      /\ (k = 0) <=> (\A j \in 1..(n - 1) : ~Playable(m, seats[j]))
      /\ (k # 0) => (Playable(m, seats[k]) /\ \A j \in 1..(k - 1) : ~Playable(m, seats[j]))
  <2>1. n - 1 \in Nat
    OBVIOUS
  <2> QED BY <1>1, <2>1, FindActiveSpec
<1>3. \A y \in PlayableSet(m) : y # dl =>
         LET j == (y - dl) % n IN j \in 1..(n - 1) /\ seats[j] = y /\ Playable(m, y)
  <2> SUFFICES ASSUME NEW y \in PlayableSet(m), y # dl
               PROVE LET j == (y - dl) % n IN j \in 1..(n - 1) /\ seats[j] = y /\ Playable(m, y)
    OBVIOUS
  <2>1. y \in 0..(n - 1) /\ Playable(m, y)
    BY DEF PlayableSet, SeatIds
  <2> QED BY <2>1, <1>1, DistTo
<1>4. k # 0
  BY <1>2, <1>3
<1>5. NextDealer(m).d = seats[k]
  BY <1>0, <1>4 DEF NextDealer, After
<1>6. seats[k] = (dl + k) % n /\ k \in 1..(n - 1)
  BY <1>1, <1>2, <1>4
<1>7. seats[k] \in 0..(n - 1) /\ seats[k] # dl /\ (seats[k] - dl) % n = k
  BY <1>6, WalkFrom
<1>8. seats[k] \in PlayableSet(m)
  BY <1>2, <1>4, <1>7 DEF PlayableSet, SeatIds
<1>9. \A y \in PlayableSet(m) : y # dl => k <= (y - dl) % n
  <2> SUFFICES ASSUME NEW y \in PlayableSet(m), y # dl PROVE k <= (y - dl) % n
    OBVIOUS
  <2> DEFINE j == (y - dl) % n
  <2>1. j \in 1..(n - 1) /\ seats[j] = y /\ Playable(m, y)
    BY <1>3
  <2>2. ~(j \in 1..(k - 1))
    BY <2>1, <1>2, <1>4
  <2> QED BY <2>1, <2>2, <1>6
<1> QED BY <1>5, <1>7, <1>8, <1>9

\* two seats at the same clockwise distance from d are the same seat
LEMMA DistInjective == ASSUME NEW n \in Nat \ {0}, NEW d \in 0..(n - 1), NEW x \in 0..(n - 1), NEW y \in 0..(n - 1),
                              x # d, y # d, (x - d) % n = (y - d) % n
                       PROVE x = y
  BY DistTo

\* ... which is the seat the property layer names: C17_button's FirstCW(m, PlayableSet(m) \ {dealer}, dealer)
THEOREM ButtonIsFirstCW ==
  ASSUME NEW m, m.max \in Nat \ {0}, m.dealer \in 0..(m.max - 1),
         Cardinality(PlayableSet(m)) # 1,
         NEW x \in PlayableSet(m), x # m.dealer
  PROVE  NextDealer(m).d = FirstCW(m, PlayableSet(m) \ {m.dealer}, m.dealer)
<1> DEFINE n == m.max
           dl == m.dealer
           S == PlayableSet(m) \ {dl}
           d == NextDealer(m).d
           dd(z) == IF z = dl THEN n ELSE (z - dl) % n
<1>1. d \in S /\ \A y \in S : (d - dl) % n <= (y - dl) % n
  BY ButtonMovesToTheNextPlayer
<1>2. \A y \in S : y \in 0..(n - 1) /\ y # dl /\ dd(y) = (y - dl) % n /\ dd(y) \in 1..(n - 1)
  BY DistTo DEF PlayableSet, SeatIds
<1>3. \A y \in S : dd(d) <= dd(y)
  BY <1>1, <1>2
<1>4. \A z \in S : (\A y \in S : dd(z) <= dd(y)) => z = d
  <2> SUFFICES ASSUME NEW z \in S, \A y \in S : dd(z) <= dd(y) PROVE z = d
    OBVIOUS
  <2>1. dd(z) <= dd(d) /\ dd(d) <= dd(z)
    BY <1>1, <1>3
  <2>2. (z - dl) % n = (d - dl) % n
    BY <2>1, <1>1, <1>2
  <2> QED BY <2>2, <1>1, <1>2, DistInjective
<1>5. FirstCW(m, S, dl) = CHOOSE z \in S : \A y \in S : dd(z) <= dd(y)
  BY DEF FirstCW
<1>6. (CHOOSE z \in S : \A y \in S : dd(z) <= dd(y)) = d
  <2> HIDE DEF dd, S, d
  <2> QED BY <1>1, <1>3, <1>4
<1> QED BY <1>5, <1>6
=============================================================================

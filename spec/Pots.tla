-------------------------------- MODULE Pots --------------------------------
(***************************************************************************)
(* Precise model of pot/level_list.go: LevelList.AddContributor / GetPots.  *)
(*   c : player -> total chips put in     f : player -> folded              *)
(* The code rebuilds and re-sorts all levels on every AddContributor, so    *)
(* the result is a function of the final (c, f) only - insertion order is   *)
(* not a parameter of the model; the conformance run feeds every order.     *)
(***************************************************************************)
EXTENDS Integers, Sequences, FiniteSets, TLC

Max2(a, b) == IF a > b THEN a ELSE b
SeqOfSet(S) == \* ascending sequence of a finite set of integers
  LET RECURSIVE F(_)
      F(T) == IF T = {} THEN <<>>
              ELSE LET m == CHOOSE x \in T : \A y \in T : x <= y
                   IN <<m>> \o F(T \ {m})
  IN F(S)
SumF(f, S) == \* sum of f[i] for i in S
  LET RECURSIVE G(_)
      G(T) == IF T = {} THEN 0 ELSE LET x == CHOOSE x \in T : TRUE IN f[x] + G(T \ {x})
  IN G(S)

-----------------------------------------------------------------------------
(* ---------- pots: pot/level_list.go ---------- *)
Levels(c, S) ==
  LET vals == SeqOfSet({c[i] : i \in S})
  IN [k \in 1..Len(vals) |->
        LET lv == vals[k]
            prev == IF k = 1 THEN 0 ELSE vals[k-1]
            cs == {i \in S : lv <= c[i]}
        IN [level |-> lv, wager |-> lv - prev, total |-> Cardinality(cs) * (lv - prev), contributors |-> cs]]

GetPots(c, f, S) ==
  LET lv == Levels(c, S)
      folded == {i \in S : f[i]}
      orig == [k \in 1..Len(lv) |->
                 [level |-> lv[k].level, wager |-> lv[k].wager, total |-> lv[k].total,
                  contrib |-> [i \in (lv[k].contributors \ folded) |-> lv[k].wager],
                  levels |-> <<lv[k]>>]]
      RECURSIVE Merge(_, _)
      Merge(acc, k) ==
        IF k > Len(orig) THEN acc
        ELSE IF acc = <<>> THEN Merge(<<orig[k]>>, k + 1)
        ELSE LET prev == acc[Len(acc)]
                 p == orig[k]
             IN IF Cardinality(DOMAIN prev.contrib) # Cardinality(DOMAIN p.contrib)
                THEN Merge(Append(acc, p), k + 1)
                ELSE Merge([acc EXCEPT ![Len(acc)] =
                              [level |-> p.level, wager |-> prev.wager + p.wager,
                               total |-> prev.total + p.total,
                               contrib |-> [i \in (DOMAIN prev.contrib) \cup (DOMAIN p.contrib) |->
                                              (IF i \in DOMAIN prev.contrib THEN prev.contrib[i] ELSE 0)
                                            + (IF i \in DOMAIN p.contrib THEN p.contrib[i] ELSE 0)],
                               levels |-> prev.levels \o p.levels]], k + 1)
      merged == Merge(<<>>, 1)
      \* put folded players back: into pots 1..j where j is the first pot with level > wager
      Upto(w) == LET js == {j \in 1..Len(merged) : w < merged[j].level}
                 IN IF js = {} THEN Len(merged) ELSE CHOOSE j \in js : \A j2 \in js : j <= j2
  IN [k \in 1..Len(merged) |->
        [merged[k] EXCEPT !.contrib =
           [i \in (DOMAIN merged[k].contrib) \cup {q \in folded : c[q] # 0 /\ k <= Upto(c[q])} |->
              IF i \in folded THEN c[i] ELSE merged[k].contrib[i]]]]
=============================================================================

---------------------------- MODULE HoldemChips ----------------------------
(***************************************************************************)
(* The chip-moving core of the hand model, in a module of its own so that   *)
(* Holdem.tla (model-checked by TLC) and PayProof.tla (proved with TLAPS    *)
(* for every game state) share the very same definitions:                   *)
(*   Pay (player.go pay): the one operator through which every ante, blind, *)
(*   call, bet, raise and all-in moves chips, with BecomeRaiser/ResetActed. *)
(***************************************************************************)
EXTENDS Integers, Sequences

Seats(g) == 0 .. (g.n - 1)

ResetActed(g) == [g EXCEPT !.P = [i \in Seats(g) |-> [g.P[i] EXCEPT !.acted = FALSE]]]
BecomeRaiser(g, i) ==
  LET g1 == IF g.P[i].wager > 0 THEN [g EXCEPT !.P[i].vpip = TRUE] ELSE g
      g2 == ResetActed([g1 EXCEPT !.raiser = i])
  IN [g2 EXCEPT !.P[i].acted = TRUE]

Pay(g, i, chips, isWager) ==
  LET p == g.P[i] IN
  IF p.stack <= chips
  THEN LET rp == g.roundPot + (p.init - p.wager)
           g1 == [g EXCEPT !.roundPot = rp,
                           !.maxWager = IF g.meta.limit = "pot" THEN rp + g.prs ELSE g.maxWager,
                           !.P[i].did = "allin", !.P[i].wager = p.init, !.P[i].stack = 0]
       IN IF ~isWager THEN g1
          ELSE LET raised == p.init - g.cw
                   minRaise == g.cw + g.prs
                   g2 == IF p.init > g.cw THEN [g1 EXCEPT !.cw = p.init] ELSE g1
               IN IF raised >= minRaise THEN BecomeRaiser(g2, i) ELSE ResetActed(g2)
  ELSE LET w == p.wager + chips
           rp == g.roundPot + chips
           g1 == [g EXCEPT !.P[i].wager = w, !.P[i].stack = p.init - w, !.roundPot = rp,
                           !.maxWager = IF g.meta.limit = "pot" THEN rp + g.prs ELSE g.maxWager]
       IN IF isWager /\ g.cw < w THEN BecomeRaiser([g1 EXCEPT !.cw = w], i) ELSE g1

\* the end of a betting round (game.go ResetAllPlayerStatus): wagers move to the pot, the stack becomes the street-start stack
ResetAllPlayerStatus(g) ==
  [g EXCEPT !.P = [i \in Seats(g) |->
     LET p == g.P[i] IN
     [p EXCEPT !.allowed = <<>>, !.pot = p.pot + p.wager, !.wager = 0, !.init = p.stack,
               !.did = IF p.fold THEN "fold" ELSE IF p.stack = 0 THEN "allin" ELSE ""]]]

(* ---- what PayProof.tla proves about Pay, and what MCHoldem checks of every reachable state (StructOK) ---- *)
\* the record structure of a game state and of a player
GF == {"n", "meta", "ev", "round", "cur", "raiser", "cw", "prs", "miniBet", "maxWager", "roundPot", "deckPos",
       "board", "burned", "pots", "last", "result", "P"}
PF == {"pos", "acted", "fold", "did", "vpip", "allowed", "bankroll", "init", "stack", "pot", "wager", "hole", "comb"}
Struct(g) == /\ DOMAIN g = GF /\ g.n \in Nat /\ DOMAIN g.P = Seats(g)
             /\ \A j \in Seats(g) : DOMAIN g.P[j] = PF
\* the chip identity of C01 (first sentence), with the street-start stack `init`
PlayerOK(p) == /\ p.stack \in Int /\ p.wager \in Int /\ p.pot \in Int /\ p.init \in Int /\ p.bankroll \in Int
               /\ p.stack >= 0 /\ p.wager >= 0 /\ p.pot >= 0
               /\ p.init = p.stack + p.wager
               /\ p.bankroll = p.stack + p.wager + p.pot
ChipIdentity(g) == g.roundPot \in Int /\ \A j \in Seats(g) : PlayerOK(g.P[j])
SameChips(p, q) == q.stack = p.stack /\ q.wager = p.wager /\ q.pot = p.pot /\ q.init = p.init /\ q.bankroll = p.bankroll
=============================================================================

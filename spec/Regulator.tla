----------------------------- MODULE Regulator -----------------------------
(***************************************************************************)
(* Precise model of regulator/regulator.go (tournament table balancing).    *)
(*   r = [max, min, status, pc (playerCount), tc (tableCount),              *)
(*        tables : id -> [count, required], queue (waiting queue), nextId]  *)
(* Every public operation yields a SET of outcomes [r, calls, ret]: the     *)
(* table picked by dispatchPlayer comes from Go map iteration and is        *)
(* therefore nondeterministic.  calls = the callbacks made, in order:       *)
(* [kind |-> "request" | "assign", id, players].  For model checking the    *)
(* set is enumerated (orc.any); for trace validation the choice is GUIDED   *)
(* by the ids of the logged assign callbacks (orc.calls).                   *)
(* All float arithmetic of the code (ceil, floor, quotient comparisons, the *)
(* division by a possibly zero table count) is transcribed over integers by *)
(* cross-multiplication, the zero divisor (+Inf / NaN in Go) explicitly.    *)
(***************************************************************************)
EXTENDS Integers, Sequences, FiniteSets, TLC

Pending == 0
Normal == 1
AfterReg == 2

Ceil(a, b) == (a + b - 1) \div b          \* a >= 0, b > 0
Take(q, k) == SubSeq(q, 1, IF k < Len(q) THEN (IF k < 0 THEN 0 ELSE k) ELSE Len(q))
Drop(q, k) == SubSeq(q, (IF k < Len(q) THEN (IF k < 0 THEN 0 ELSE k) ELSE Len(q)) + 1, Len(q))
Ids(r) == DOMAIN r.tables
RT(r) == Ceil(r.pc, r.max)               \* requiredTables (0 when pc = 0)

\* updateTableRequirements
UpdateReq(r) ==
  LET rt == RT(r) IN
  IF rt # Cardinality(Ids(r)) \/ rt = 0 THEN r
  ELSE LET wl == Ceil(r.pc, rt)
       IN [r EXCEPT !.tables = [t \in Ids(r) |->
             IF r.tables[t].count < wl THEN [r.tables[t] EXCEPT !.required = wl - r.tables[t].count]
             ELSE r.tables[t]]]

\* allocateTables: deterministic; returns [r, calls]
AllocateTables(r0) ==
  LET rt0 == RT(r0) IN
  IF r0.tc = 0 /\ r0.pc < r0.min THEN [r |-> r0, calls |-> <<>>]
  ELSE
  LET w0 == IF rt0 = 0 THEN 0 ELSE r0.pc \div rt0
      first == r0.tc = 0
      rt == IF first /\ w0 < r0.min THEN r0.pc \div r0.max ELSE rt0
      wlInit == IF first THEN (IF w0 >= r0.min THEN w0 ELSE r0.max) ELSE w0
      RECURSIVE Loop(_, _, _)
      Loop(r, wl0, calls) ==
        IF ~(wl0 >= r0.min /\ r.tc < rt) THEN [r |-> r, calls |-> calls]
        ELSE LET wl == IF wl0 > r0.max THEN r0.max ELSE wl0     \* a table is never asked to hold more than its capacity
                 req == IF Len(r.queue) > wl /\ Len(r.queue) < r0.max THEN Len(r.queue) ELSE wl
                 ps == Take(r.queue, req)
             IN IF Len(ps) = 0 THEN [r |-> r, calls |-> calls]
                ELSE LET id == r.nextId
                         t == [count |-> Len(ps), required |-> IF Len(ps) < wl THEN wl - Len(ps) ELSE 0]
                         r1 == [r EXCEPT !.queue = Drop(r.queue, req), !.tc = r.tc + 1, !.nextId = id + 1,
                                         !.tables = [x \in Ids(r) \cup {id} |-> IF x = id THEN t ELSE r.tables[x]]]
                         expected == rt - r1.tc
                         wl2 == IF expected = 0 THEN -1 ELSE Len(r1.queue) \div expected
                     IN Loop(r1, wl2, Append(calls, [kind |-> "request", id |-> id, players |-> ps]))
  IN Loop(r0, wlInit, <<>>)

\* dispatch loop: set of [r, cands, calls]
\* orc = "ANY" (model checking) or the logged callback sequence (trace validation: choices are guided)
Guided(need, calls, orc) ==
  IF orc.any THEN need
  ELSE LET k == Len(calls) + 1
       IN IF k <= Len(orc.calls) /\ orc.calls[k].kind = "assign" THEN need \cap {orc.calls[k].id} ELSE {}
RECURSIVE DispatchAll(_, _, _, _)
DispatchAll(r, cands, calls, orc) ==
  LET need == {t \in Ids(r) : r.tables[t].required > 0} IN
  IF Len(cands) = 0 \/ need = {} THEN {[r |-> r, cands |-> cands, calls |-> calls]}
  ELSE UNION { LET k == r.tables[t].required
                   picked == Take(cands, k)
                   r1 == [r EXCEPT !.tables[t].required = @ - Len(picked), !.tables[t].count = @ + Len(picked)]
               IN DispatchAll(r1, Drop(cands, k), Append(calls, [kind |-> "assign", id |-> t, players |-> picked]), orc)
             : t \in Guided(need, calls, orc) }

\* drainWaitingQueue: set of [r, calls]
Drain(r, orc) ==
  IF r.tc = 0
  THEN IF Len(r.queue) >= r.min THEN {AllocateTables(r)} ELSE {[r |-> r, calls |-> <<>>]}
  ELSE UNION { LET o1r == IF Len(o1.cands) > 0 THEN UpdateReq(o1.r) ELSE o1.r
               IN { LET r2 == [o2.r EXCEPT !.queue = o2.cands]
                    IN IF Len(o2.cands) > 0
                       THEN LET a == AllocateTables(r2) IN [r |-> a.r, calls |-> o2.calls \o a.calls]
                       ELSE [r |-> r2, calls |-> o2.calls]
                  : o2 \in DispatchAll(o1r, o1.cands, o1.calls, orc) }
             : o1 \in DispatchAll(r, r.queue, <<>>, orc) }

EnterQueue(r, ps, orc) ==
  LET r1 == [r EXCEPT !.queue = r.queue \o ps] IN
  IF r1.status = Pending THEN {[r |-> r1, calls |-> <<>>]} ELSE Drain(r1, orc)

Out(S, ret) == {[r |-> o.r, calls |-> o.calls, ret |-> ret] : o \in S}

OpAddPlayers(r, ps, orc) ==
  IF r.status = AfterReg THEN {[r |-> r, calls |-> <<>>, ret |-> [err |-> "ErrAfterRegDeadline"]]}
  ELSE Out(EnterQueue(UpdateReq([r EXCEPT !.pc = r.pc + Len(ps)]), ps, orc), [err |-> ""])

OpSetStatus(r, s, orc) ==
  IF r.status = s THEN {[r |-> r, calls |-> <<>>, ret |-> [err |-> ""]]}
  ELSE LET r1 == [r EXCEPT !.status = s] IN
       IF r.status = Pending /\ s = Normal THEN Out(Drain(r1, orc), [err |-> ""])
       ELSE {[r |-> r1, calls |-> <<>>, ret |-> [err |-> ""]]}

OpRelease(r, ps, orc) == Out(EnterQueue(r, ps, orc), [err |-> ""])

Remove(r, t) == [r EXCEPT !.tables = [x \in Ids(r) \ {t} |-> r.tables[x]], !.tc = r.tc - 1]
LowCount(r) == LET rt == RT(r) wli == r.pc \div rt IN Cardinality({t \in Ids(r) : r.tables[t].count < wli})
\* calculateLowerWaterLevel() >= floor(waterLevel), with Go float semantics for a zero divisor
LowerLevelReached(r) ==
  LET rt == RT(r)
      wli == r.pc \div rt
      low == {t \in Ids(r) : r.tables[t].count <= wli}
      RECURSIVE Sum(_)
      Sum(S) == IF S = {} THEN 0 ELSE LET x == CHOOSE x \in S : TRUE IN r.tables[x].count + Sum(S \ {x})
      num == r.pc - Sum(Ids(r) \ low)
      tcnt == Cardinality(low)
  IN IF tcnt = 0 THEN num > 0          \* +Inf >= F is true; NaN / -Inf >= F is false
     ELSE num >= wli * tcnt

OpSync(r0, t, out) ==
  IF t \notin Ids(r0) THEN {[r |-> r0, calls |-> <<>>, ret |-> [err |-> "ErrNotFoundTable", release |-> 0, players |-> <<>>]]}
  ELSE
  LET r == [r0 EXCEPT !.pc = r0.pc - out, !.tables[t].count = @ - out]
      cnt == r.tables[t].count
      rt == RT(r)
      One(rr, rel, ps) == {[r |-> rr, calls |-> <<>>, ret |-> [err |-> "", release |-> rel, players |-> ps]]}
  IN IF r.status = AfterReg /\ r.pc <= r.max /\ rt < r.tc THEN One(Remove(r, t), cnt, <<>>)
     ELSE IF rt = 0 THEN One(r, 0, <<>>)               \* waterLevel is NaN: both comparisons false
     ELSE IF cnt * rt < r.pc
          THEN IF LowCount(r) >= 2 /\ rt < r.tc THEN One(Remove(r, t), cnt, <<>>)
               ELSE LET need == (r.pc \div rt) - cnt
                        ps == Take(r.queue, need)
                        still == need - Len(ps)
                        r1 == [r EXCEPT !.queue = Drop(r.queue, need),
                                        !.tables[t].required = IF still > 0 THEN still ELSE @,
                                        !.tables[t].count = @ + Len(ps)]
                    IN One(r1, 0, ps)
     ELSE IF cnt * rt > r.pc
          THEN LET n == cnt - (r.pc \div rt)
                   RECURSIVE Pick(_, _, _)
                   Pick(rr, i, picked) ==
                     IF i >= n \/ LowerLevelReached(rr) THEN [r |-> rr, picked |-> picked]
                     ELSE Pick([rr EXCEPT !.tables[t].count = @ - 1], i + 1, picked + 1)
                   p == Pick(r, 0, 0)
               IN One(p.r, p.picked, <<>>)
     ELSE One(r, 0, <<>>)

NewReg(mx, mn) == [max |-> mx, min |-> mn, status |-> Pending, pc |-> 0, tc |-> 0, tables |-> [x \in {} |-> 0], queue |-> <<>>, nextId |-> 1]
=============================================================================

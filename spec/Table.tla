------------------------------- MODULE Table -------------------------------
(***************************************************************************)
(* Precise model of table/table.go + table/internal.go: the HAND LOOP of a  *)
(* table.  The table owns a seat manager (SeatManager.tla) and, for each    *)
(* hand, a table game (TableGame.tla) played through the stateless backend. *)
(*                                                                          *)
(*   tb = [sm       the seat manager,                                       *)
(*         pl       seat -> [id, bank, gidx, pos, playable]  (ts.Players),  *)
(*         tg       the table game of the running hand (TableGame.tla),     *)
(*         hasG     ts.GameState # nil,                                     *)
(*         status   "idle" | "preparing" | "playing" | "pending" | "closed",*)
(*         count    gameCount,  inPos   inPosition,  running,               *)
(*         opt      [maxSeats, maxGames, initial, min, joinable, elim,      *)
(*                   ante, dealerBlind, sb, bb]]                            *)
(*                                                                          *)
(* The Go code runs the loop on its own goroutine (tableLoop) and plays the *)
(* hand on the table game's state-updater goroutine; between two calls of   *)
(* the driver the table comes to REST at the next point where it waits for  *)
(* a player (or closes).  One operator per public call = the whole chain up *)
(* to the next rest, like everywhere in these specifications:               *)
(*   settlement of the finished hand -> bankrolls, busted players reserved  *)
(*   (or removed) -> end conditions -> sm.Next -> positions -> playable     *)
(*   count -> new game from the playable seats in dealer order -> Start.    *)
(* What the shuffle produced and what the evaluator says are oracles bound  *)
(* from the trace: o = [meta (fixed options and the shuffled deck of a hand *)
(* started during the call), pw (evaluations in the running hand), pwNew    *)
(* (in a hand started during the call)].                                    *)
(*                                                                          *)
(* Deliberate deviations of the CODE that the model therefore has:          *)
(*   StalePositionsAfterRefusedCount - when the playable count is too small *)
(*     AFTER positions were set, inPosition stays TRUE: the next attempt    *)
(*     does not call sm.Next again.                                         *)
(*   ActivateErrorsSwallowed - Activate returns nil whatever sm.Seat says.  *)
(*   ZeroBankrollReserveOnly - a busted player is reserved (sits out), and  *)
(*     removed only in eliminate mode "leave".                              *)
(***************************************************************************)
EXTENDS TableGame
SM == INSTANCE SeatManager

NoPl == [s \in {} |-> 0]
Restrict(f, S) == [x \in S |-> f[x]]
PutAt(f, k, v) == [x \in (DOMAIN f) \cup {k} |-> IF x = k THEN v ELSE f[x]]

NewTable(opt) ==
  [sm |-> SM!NewSM(opt.maxSeats), pl |-> NoPl, tg |-> NewTG, hasG |-> FALSE, status |-> "idle",
   count |-> 0, inPos |-> FALSE, running |-> FALSE, opt |-> opt]

TR(tb, res) == [tb |-> tb, res |-> res]
Occupied(m) == {s \in SM!SeatIds(m) : m.seat[s].player # SM!NULL}      \* sm.GetPlayerCount counts these

(* ---- player management: Join / Leave / Reserve / Activate ---- *)
TbJoin(tb, s, id, bank) ==
  LET r == SM!OpJoinAt(tb.sm, s, id) IN
  IF r.res # "" THEN TR(tb, r.res)
  ELSE TR([tb EXCEPT !.sm = r.m, !.pl = PutAt(tb.pl, s, [id |-> id, bank |-> bank, gidx |-> -1, pos |-> {}, playable |-> FALSE])], "")
LeaveSeat(tb, s) ==      \* table.leave
  LET r == SM!OpLeave(tb.sm, s) IN
  IF r.res # "" THEN TR(tb, r.res) ELSE TR([tb EXCEPT !.sm = r.m, !.pl = Restrict(tb.pl, (DOMAIN tb.pl) \ {s})], "")
TbLeave(tb, s) == LeaveSeat(tb, s)
TbReserve(tb, s) == LET r == SM!OpReserve(tb.sm, s) IN TR([tb EXCEPT !.sm = r.m], r.res)

\* SetAnte / SetBlinds: the options of the table change at once; the next game that is started takes them
TbSetAnte(tb, x) == TR([tb EXCEPT !.opt.ante = x], "")
TbSetBlinds(tb, d, sb, bb) == TR([tb EXCEPT !.opt.dealerBlind = d, !.opt.sb = sb, !.opt.bb = bb], "")

(* ---- the hand loop ---- *)
\* setupPosition after a successful sm.Next: positions and the playable flag of every seated player
WithPositions(tb) ==
  LET m == tb.sm IN
  [tb EXCEPT !.inPos = TRUE,
             !.pl = [s \in DOMAIN tb.pl |->
                      [tb.pl[s] EXCEPT !.playable = (~m.seat[s].reserved /\ m.seat[s].active),
                                       !.pos = (IF s = m.dealer THEN {"dealer"} ELSE {})
                                               \cup (IF s = m.sb THEN {"sb"} ELSE IF s = m.bb THEN {"bb"} ELSE {})]]]
\* [tb, err]: err = "" | "ErrInsufficientNumberOfPlayers" | "PANIC"
SetupPosition(tb) ==
  IF tb.inPos THEN TR(tb, "")
  ELSE LET r == SM!OpNext(tb.sm) IN
       IF r.res # "" THEN TR([tb EXCEPT !.sm = r.m], r.res) ELSE TR(WithPositions([tb EXCEPT !.sm = r.m]), "")

EndReached(tb) == tb.opt.maxGames > 0 /\ tb.opt.maxGames = tb.count
Closed(tb) == [tb EXCEPT !.status = "closed", !.hasG = FALSE]      \* status closed, updateGameState(nil); the loop returns (isRunning stays set)
\* tableLoop on ErrInsufficientNumberOfPlayers
Insufficient(tb) == IF tb.opt.joinable THEN [tb EXCEPT !.status = "idle"] ELSE Closed(tb)

\* the playable seats in table order from the dealer (sm.GetPlayableSeats)
PlayableSeq(m) == SelectSeq(SM!Norm(m, m.dealer), LAMBDA s : SM!Playable(m, s))
\* startGame: game indices and the options of the new game; `meta0` carries the deck and the fixed game options
GameCfg(tb, seq, meta0) ==
  [bank |-> [k \in 1..Len(seq) |-> tb.pl[seq[k]].bank],
   pos |-> [k \in 1..Len(seq) |-> tb.pl[seq[k]].pos],
   meta |-> [meta0 EXCEPT !.ante = tb.opt.ante, !.dealerBlind = tb.opt.dealerBlind, !.sb = tb.opt.sb, !.bb = tb.opt.bb]]
WithIdx(tb, seq) ==
  [tb EXCEPT !.pl = [s \in DOMAIN tb.pl |->
      [tb.pl[s] EXCEPT !.gidx = IF \E k \in 1..Len(seq) : seq[k] = s THEN (CHOOSE k \in 1..Len(seq) : seq[k] = s) - 1 ELSE -1]]]

\* updatePlayerStates at GameClosed: final stacks; a busted player is reserved, and removed in eliminate mode "leave"
RECURSIVE PayOut(_, _, _)
PayOut(tb, g, k) ==
  IF k >= g.n THEN tb
  ELSE LET S == {s \in DOMAIN tb.pl : tb.pl[s].gidx = k} IN
       IF S = {} THEN PayOut(tb, g, k + 1)
       ELSE LET s == CHOOSE x \in S : TRUE
                fin == g.result.players[k].final
                t1 == [tb EXCEPT !.pl[s].bank = fin]
                t2 == IF fin # 0 THEN t1
                      ELSE LET t3 == [t1 EXCEPT !.sm = SM!OpReserve(t1.sm, s).m]
                           IN IF tb.opt.elim = "leave" THEN LeaveSeat(t3, s).tb ELSE t3
            IN PayOut(t2, g, k + 1)

\* prepareNextGame ... and, when a hand is started, up to its first rest; `o` = [meta, pw] from the trace.
\* `again` bounds the loop "the new hand closed by itself" (cannot happen: a started hand waits for ready)
RECURSIVE Prepare(_, _)
HandOver(tb, o) ==       \* the table game has just closed (tb.tg.closed): the tail of startGame and of prepareNextGame
  LET t1 == [PayOut(tb, tb.tg.g, 0) EXCEPT !.inPos = FALSE]
  IN IF EndReached(t1) THEN Closed(t1)
     ELSE LET r == SetupPosition(t1) IN
          IF r.res = "ErrInsufficientNumberOfPlayers" THEN Insufficient(r.tb)
          ELSE IF r.res # "" THEN r.tb
          ELSE Prepare([r.tb EXCEPT !.status = "pending"], o)
Prepare(tb, o) ==
  IF EndReached(tb) THEN Closed(tb)
  ELSE LET r == SetupPosition(tb) IN
       IF r.res = "ErrInsufficientNumberOfPlayers" THEN Insufficient(r.tb)
       ELSE IF r.res # "" THEN r.tb
       ELSE LET t1 == [r.tb EXCEPT !.hasG = FALSE, !.status = "preparing"]
                seq == PlayableSeq(t1.sm)
            IN IF (t1.count = 0 /\ Len(seq) < t1.opt.initial) \/ Len(seq) < t1.opt.min THEN Insufficient(t1)
               ELSE LET t2 == WithIdx(t1, seq)
                        \* (no oracle for a new hand - the recorded table shows none: evaluated like a start the engine refuses)
                        st == IF o.meta = NULL THEN TNO(NewTG, "start") ELSE TGStart(GameCfg(t2, seq, o.meta), o.pwNew)
                    IN IF ~st.ok THEN [t2 EXCEPT !.tg = NewTG, !.status = "pending"]     \* the engine refused: the loop tries again
                       ELSE [t2 EXCEPT !.tg = st.tg, !.hasG = TRUE, !.count = @ + 1, !.status = "playing"]

\* after a call on the table game: if the hand closed, the loop goes on
After(tb, r, o) ==
  IF ~r.ok THEN TR(tb, r.err)
  ELSE LET t1 == [tb EXCEPT !.tg = r.tg] IN
       TR(IF r.tg.closed /\ ~tb.tg.closed THEN HandOver(t1, o) ELSE t1, "")

TbStart(tb, o) == IF tb.running THEN TR(tb, "") ELSE TR(Prepare([tb EXCEPT !.running = TRUE], o), "")
\* Activate: sm.Seat (errors swallowed); a running idle table with enough seated players starts the loop again
TbActivate(tb, s, o) ==
  LET r == SM!OpSitIn(tb.sm, s) IN
  IF r.res # "" THEN TR(tb, "")
  ELSE LET t1 == [tb EXCEPT !.sm = r.m] IN
       IF t1.running /\ t1.status = "idle" /\ Cardinality(Occupied(t1.sm)) >= t1.opt.initial THEN TR(Prepare(t1, o), "") ELSE TR(t1, "")

\* actions of a player, by player id: refused with ErrPlayerNotInGame when the player has no game index
IdxOf(tb, id) == LET S == {s \in DOMAIN tb.pl : tb.pl[s].id = id} IN IF S = {} THEN -1 ELSE tb.pl[CHOOSE s \in S : TRUE].gidx
Live(tb) == tb.running /\ tb.tg.g # NULL
TbReady(tb, id, o) ==
  IF ~Live(tb) THEN TR(tb, "") ELSE IF IdxOf(tb, id) = -1 THEN TR(tb, "ErrPlayerNotInGame") ELSE After(tb, TGReady(tb.tg, IdxOf(tb, id), o.pw), o)
TbPay(tb, id, o) ==
  IF ~Live(tb) THEN TR(tb, "") ELSE IF IdxOf(tb, id) = -1 THEN TR(tb, "ErrPlayerNotInGame") ELSE After(tb, TGPay(tb.tg, IdxOf(tb, id), o.pw), o)
TbAction(tb, id, name, x, o) ==
  IF ~Live(tb) THEN TR(tb, "") ELSE IF IdxOf(tb, id) = -1 THEN TR(tb, "ErrPlayerNotInGame") ELSE After(tb, TGAction(tb.tg, IdxOf(tb, id), name, x, o.pw), o)

(* ---- what always holds at rest (checked on the model in MCTable, on the recorded states in TableTrace) ---- *)
\* game indices are exactly 0..n-1 over the players dealt in, in seat order from the dealer; everybody else has -1
IdxConsistent(tb) ==
  tb.hasG /\ ~tb.tg.closed =>
     LET D == {s \in DOMAIN tb.pl : tb.pl[s].gidx # -1} IN
     /\ \A s, u \in D : s # u => tb.pl[s].gidx # tb.pl[u].gidx
     /\ \A s \in D : tb.pl[s].gidx \in 0..(tb.tg.g.n - 1)
\* the game got the seat manager's positions: dealer, small blind and big blind of the hand are the players on those seats
PositionsHandedOn(tb) ==
  tb.hasG /\ ~tb.tg.closed =>
     \A s \in DOMAIN tb.pl : tb.pl[s].gidx # -1 => tb.tg.g.P[tb.pl[s].gidx].pos = tb.pl[s].pos
=============================================================================

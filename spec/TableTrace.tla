----------------------------- MODULE TableTrace -----------------------------
(***************************************************************************)
(* Trace validation for table.Table (table/table.go, table/internal.go):    *)
(* one NDJSON line per call of the driver (T.Join, T.Activate, T.Reserve,   *)
(* T.Leave, T.Start, T.Ready, T.Pay, T.<action>) with the table AT REST     *)
(* after the call: status, hand counter, players, the seat manager (verif   *)
(* hook), the game state - and, when a hand closed during the call, the     *)
(* state it closed with.                                                    *)
(*  - conformance with the precise model Table.tla (MODEL-DRIFT, no verdict)*)
(*  - C08.positions on the table's own seat manager: the line on which a    *)
(*    new hand appears shows the seat manager right after its successful    *)
(*    move to the next hand                                                 *)
(***************************************************************************)
EXTENDS Table, HoldemJson
CONSTANTS TraceFile, Props, MaxViol
VARIABLES l, tb, mir, seen, viol, drift, cnt
Trace == ndJsonDeserialize(TraceFile)
SP == INSTANCE SeatProps

ToM(st) == [max |-> st.max,
            seat |-> [s \in 0..(st.max - 1) |-> LET q == st.seat[s + 1] IN [player |-> q.player, active |-> q.active, reserved |-> q.reserved]],
            dealer |-> st.dealer, sb |-> st.sb, bb |-> st.bb, crashed |-> FALSE]
ToPl(ps) == [s \in {ps[k].seat : k \in 1..Len(ps)} |->
               LET q == ps[CHOOSE k \in 1..Len(ps) : ps[k].seat = s]
               IN [id |-> q.id, bank |-> q.bank, gidx |-> q.gidx, pos |-> ToSet(q.pos), playable |-> q.playable]]
ToOpt(o) == [maxSeats |-> o.maxSeats, maxGames |-> o.maxGames, initial |-> o.initial, min |-> o.min, joinable |-> o.joinable,
             elim |-> o.elim, ante |-> o.ante, dealerBlind |-> o.dealerBlind, sb |-> o.sb, bb |-> o.bb]
ErrClass(e) == CASE e = "" -> "" [] e = "game: invalid action" -> "ErrInvalidAction" [] e = "table: player not in the game" -> "ErrPlayerNotInGame"
                 [] e = "game: no running game" -> "ErrNoRunningGame"
                 [] e = "seat_manager: not found seat" -> "ErrNotFoundSeat" [] e = "seat_manager: not available" -> "ErrNotAvailable"
                 [] e = "seat_manager: invalid seat" -> "ErrInvalidSeat" [] e = "seat_manager: empty seat" -> "ErrEmptySeat"
                 [] OTHER -> "engine"
Act(op) == CASE op = "T.Fold" -> "Fold" [] op = "T.Check" -> "Check" [] op = "T.Call" -> "Call" [] op = "T.Allin" -> "Allin"
             [] op = "T.Pass" -> "Pass" [] op = "T.Bet" -> "Bet" [] op = "T.Raise" -> "Raise" [] OTHER -> "?"

\* what the recorded line shows of the table, as the model's record (hidden: inPos, running, the ready group's bookkeeping)
\* the status is written by the table loop without a lock: "preparing" / "playing" / "pending" are one class for the comparison
StatusClass(st) == IF st \in {"closed", "idle"} THEN st ELSE "busy"
Shown(t) == [opt |-> t.opt, sm |-> [t.sm EXCEPT !.crashed = FALSE], pl |-> t.pl, closed |-> (t.status = "closed"), status |-> StatusClass(t.status), count |-> t.count, hasG |-> t.hasG,
             g |-> IF t.hasG THEN Norm(t.tg.g) ELSE NULL]
ObsG(T) == ToGs(T.G, T.deck)
Obs(T, opt) == [opt |-> ToOpt(opt), sm |-> ToM(T.sm), pl |-> ToPl(T.players), closed |-> (T.status = "closed"), status |-> StatusClass(T.status), count |-> T.count, hasG |-> T.hasG,
           g |-> IF T.hasG THEN ObsG(T) ELSE NULL]
PwOf(g) == [i \in Seats(g) |-> g.P[i].comb]
Oracle(T) ==
  LET cur == IF T.hasG THEN ObsG(T) ELSE NULL
      old == IF T.hasClosed THEN ToGs(T.closedG, T.closedDeck) ELSE NULL
  IN [meta |-> IF T.hasG THEN cur.meta ELSE NULL,
      pw |-> IF T.hasClosed THEN PwOf(old) ELSE IF T.hasG THEN PwOf(cur) ELSE <<>>,
      pwNew |-> IF T.hasG THEN PwOf(cur) ELSE <<>>]
ModelStep(t0, ln) ==
  LET o == Oracle(ln.T) IN
  CASE ln.op = "T.Join" -> TbJoin(t0, ln.seat, ln.id, ln.x)
    [] ln.op = "T.Leave" -> TbLeave(t0, ln.seat)
    [] ln.op = "T.Reserve" -> TbReserve(t0, ln.seat)
    [] ln.op = "T.Activate" -> TbActivate(t0, ln.seat, o)
    [] ln.op = "T.Start" -> TbStart(t0, o)
    [] ln.op = "T.Nop" -> TR(t0, "")
    [] ln.op = "T.SetAnte" -> TbSetAnte(t0, ln.x)
    [] ln.op = "T.SetBlinds" -> TbSetBlinds(t0, ln.blinds[1], ln.blinds[2], ln.blinds[3])
    [] ln.op = "T.Ready" -> TbReady(t0, ln.id, o)
    [] ln.op = "T.Pay" -> TbPay(t0, ln.id, o)
    [] Act(ln.op) # "?" -> TbAction(t0, ln.id, Act(ln.op), ln.x, o)
    [] OTHER -> TR(t0, "?")
ModelErr(res) == IF res \in {"", "ErrInvalidAction", "ErrPlayerNotInGame", "ErrNoRunningGame", "ErrNotFoundSeat", "ErrNotAvailable", "ErrInvalidSeat", "ErrEmptySeat"}
                 THEN res ELSE "engine"

\* a new hand appeared on this line: the seat manager is shown right after its successful Next
NewHand(t0, T) == T.hasG /\ T.count = t0.count + 1 /\ T.status # "closed"
Bad(t0, ln) ==
  IF "C08" \in Props /\ NewHand(t0, ln.T)
     /\ ~SP!C08_positions(t0.sm, ToM(ln.T.sm), [op |-> "Next", seat |-> -1, p |-> 0, got |-> -1, res |-> ""])
  THEN {"C08.positions.viaTable"} ELSE {}

(* ---- the mirror: competition.TableManager.UpdateTableState -> match.Table.ApplySeatChanges (SeatManager.tla: OpApplySeatChanges) ---- *)
\* mir  : the seat manager of match.Table       seen : seat -> player id, the players of the table state the table manager saw last
NoSeen == [s \in {} |-> 0]
SeenOf(ps) == [s \in {ps[k].seat : k \in 1..Len(ps)} |-> ps[CHOOSE k \in 1..Len(ps) : ps[k].seat = s].id]
IdsOf(f) == {f[s] : s \in DOMAIN f}
SeatWith(ps, role) == LET K == {k \in 1..Len(ps) : role \in ToSet(ps[k].pos)} IN IF K = {} THEN -1 ELSE ps[CHOOSE k \in K : \A j \in K : j <= k].seat
\* GetSeatChanges(old, new): nothing for a state without a game; otherwise the seats of the old players who are gone, and the positions
ExpectedSC(prev, e) ==
  IF ~e.hasG THEN [has |-> FALSE, dealer |-> -1, sb |-> -1, bb |-> -1, left |-> {}]
  ELSE [has |-> TRUE, dealer |-> SeatWith(e.players, "dealer"), sb |-> SeatWith(e.players, "sb"), bb |-> SeatWith(e.players, "bb"),
        left |-> {s \in DOMAIN prev : prev[s] \notin IdsOf(SeenOf(e.players))}]
RecordedSC(e) == [has |-> e.sc.has, dealer |-> e.sc.dealer, sb |-> e.sc.sb, bb |-> e.sc.bb, left |-> ToSet(e.sc.left)]
RECURSIVE FoldEms(_, _, _, _)
FoldEms(m0, prev, ems, k) ==
  IF k > Len(ems) THEN [m |-> m0, seen |-> prev, ok |-> TRUE]
  ELSE LET e == ems[k]
           x == ExpectedSC(prev, e)
           m1 == IF x.has THEN SM!OpApplySeatChanges(m0, [dealer |-> x.dealer, sb |-> x.sb, bb |-> x.bb, left |-> x.left]).m ELSE m0
           r == FoldEms(m1, SeenOf(e.players), ems, k + 1)
       IN [r EXCEPT !.ok = r.ok /\ RecordedSC(e) = x /\ e.res = ""]
MirrorStep(m0, prev, ln) ==
  LET m1 == IF ln.op = "T.Join" /\ ln.err = "" THEN SM!OpJoinAt(m0, ln.seat, ln.id).m ELSE m0
  IN FoldEms(m1, prev, ln.T.ems, 1)
\* what the mirror is for: it shows the players of the real table on their seats
MirrorShowsTable(T) == \A s \in 0..(T.sm.max - 1) : T.sm.seat[s + 1].player = T.mirror.seat[s + 1].player

Bump(cc, S) == [k \in (DOMAIN cc) \cup S |-> (IF k \in DOMAIN cc THEN cc[k] ELSE 0) + (IF k \in S THEN 1 ELSE 0)]
Init == l = 1 /\ tb = NewTable(ToOpt(Trace[1].opt)) /\ mir = SM!NewSM(Trace[1].opt.maxSeats) /\ seen = NoSeen /\ viol = {} /\ drift = {} /\ cnt = [k \in {} |-> 0]
\* re-synchronise the model with the recorded table (after a drift): the hidden parts come from the model
Resync(t1, T, opt) ==
  [t1 EXCEPT !.opt = ToOpt(opt), !.sm = ToM(T.sm), !.pl = ToPl(T.players), !.status = T.status, !.count = T.count, !.hasG = T.hasG,
             !.tg = IF T.hasG THEN Deliver(t1.tg, ObsG(T), PwOf(ObsG(T))) ELSE t1.tg]
Step ==
  /\ l < Len(Trace) /\ l' = l + 1
  /\ LET ln == Trace[l + 1] IN
     IF ln.kind = "reset"
     THEN tb' = NewTable(ToOpt(ln.opt)) /\ mir' = SM!NewSM(ln.opt.maxSeats) /\ seen' = NoSeen /\ viol' = viol /\ drift' = drift /\ cnt' = Bump(cnt, {"runs"})
     ELSE LET r == ModelStep(tb, ln)
              mr == MirrorStep(mir, seen, ln)
              mok == mr.ok /\ [mr.m EXCEPT !.crashed = FALSE] = ToM(ln.T.mirror)
              ok == ~ln.stuck /\ Shown(r.tb) = Obs(ln.T, ln.opt) /\ ModelErr(r.res) = ErrClass(ln.err) /\ mok
          IN /\ viol' = viol \cup {<<l + 1, nm>> : nm \in {x \in Bad(tb, ln) : Cardinality({w \in viol : w[2] = x}) < MaxViol}}
             /\ drift' = IF ok \/ Cardinality(drift) >= MaxViol THEN drift ELSE drift \cup {l + 1}
             /\ tb' = IF ok THEN r.tb ELSE Resync(r.tb, ln.T, ln.opt)
             /\ mir' = ToM(ln.T.mirror) /\ seen' = mr.seen
             /\ cnt' = Bump(cnt, {"table.calls", "table." \o ln.op \o (IF ln.err = "" THEN "" ELSE ".refused")}
                                 \cup (IF NewHand(tb, ln.T) THEN {"table.handsStarted", "C08.positions.viaTable"} ELSE {})
                                 \cup (IF NewHand(tb, ln.T) /\ tb.status = "idle" /\ tb.count > 0 THEN {"table.restartedFromIdle"} ELSE {})
                                 \cup (IF NewHand(tb, ln.T) /\ tb.count > 0 /\ tb.tg.g # NULL /\ <<ln.T.G.meta.ante, ln.T.G.meta.sb, ln.T.G.meta.bb>> # <<tb.tg.g.meta.ante, tb.tg.g.meta.sb, tb.tg.g.meta.bb>>
                                       THEN {"table.newBlindLevel"} ELSE {})
                                 \cup (IF ln.T.hasClosed THEN {"table.handsClosed"} ELSE {})
                                 \cup (IF ln.T.status = "closed" /\ tb.status # "closed" THEN {"table.closed"} ELSE {})
                                 \cup (IF ln.stuck THEN {"table.stuck"} ELSE {})
                                 \cup {"mirror.emissions" : k \in 1..Len(ln.T.ems)}
                                 \cup (IF \E k \in 1..Len(ln.T.ems) : ln.T.ems[k].sc.left # <<>> THEN {"mirror.playerLeft"} ELSE {})
                                 \cup (IF MirrorShowsTable(ln.T) THEN {"mirror.showsTable"} ELSE {"mirror.ghostPlayer"}))
  /\ (l + 1 = Len(Trace)) =>
        PrintT(<<"RESULT", ToJson([lines |-> Len(Trace), viol |-> viol', drift |-> drift', cnt |-> cnt'])>>)
Spec == Init /\ [][Step]_<<l, tb, mir, seen, viol, drift, cnt>>
=============================================================================

------------------------------- MODULE MCSeat -------------------------------
(***************************************************************************)
(* Exhaustive model checking of the precise seat-manager model against      *)
(* SeatProps (C08, C17, C18): all histories of Join (every seat incl. -2,   *)
(* -1 = any, Max, Max+1), SitIn, Reserve, Leave (every seat incl. out of    *)
(* range), Next and Reset on MaxSeats seats with the player ids of Players. *)
(***************************************************************************)
EXTENDS SeatProps
CONSTANTS MaxSeats, Players, Props,
          WithReset,   \* Reset() is part of the alphabet
          Ignore   \* clause names of recorded known findings (they are reported from real traces, not from the model)
VARIABLES m, out, h
vars == <<m, out, h>>

Init == m = NewSM(MaxSeats) /\ out = [op |-> "new", seat |-> -1, p |-> -1, got |-> -1, res |-> "", left |-> <<>>, cbs |-> <<>>, pos |-> <<>>] /\ h = HistS0
Seated(mm) == {mm.seat[s].player : s \in SeatIds(mm)} \ {NULL}
\* player ids are opaque: joining with the smallest free id loses no generality
MinFree(mm) == LET F == Players \ Seated(mm) IN IF F = {} THEN {} ELSE {CHOOSE p \in F : \A q \in F : p <= q}
Do(name, s, p, got, r) ==
  LET o == [op |-> name, seat |-> s, p |-> p, got |-> got, res |-> r.res, left |-> <<>>, cbs |-> <<>>, pos |-> <<>>] IN
  m' = r.m /\ out' = o /\ h' = HistSNext(h, m, r.m, o)
Next ==
  /\ ~m.crashed
  /\ \/ \E s \in -2..(MaxSeats + 1) : \E p \in MinFree(m) :
          IF s = -1 THEN (IF JoinAnyChoices(m) = {} THEN Do("Join", s, p, -1, R(m, "ErrNoAvailableSeat"))
                          ELSE \E c \in JoinAnyChoices(m) : Do("Join", s, p, c, OpJoinAt(m, c, p)))
          ELSE Do("Join", s, p, IF OpJoinAt(m, s, p).res = "" THEN s ELSE -1, OpJoinAt(m, s, p))
     \/ \E s \in -1..MaxSeats : \/ Do("SitIn", s, -1, -1, OpSitIn(m, s)) \/ Do("Reserve", s, -1, -1, OpReserve(m, s))
                                \/ Do("Leave", s, -1, -1, OpLeave(m, s))
     \/ Do("Next", -1, -1, -1, OpNext(m))
     \/ (WithReset /\ Do("Reset", -1, -1, -1, OpReset(m)))
Spec == Init /\ [][Next]_vars
\* the join/leave counters grow forever: they stay out of the view (the relation they are used in is inductive)
View == <<m, h.track, h.occAtNext, h.posAtNext>>
\* C17 / C18 do not read the late-joiner history; what they read of h is a function of m in this model (joins - leaves =
\* occupied seats, lastDealer = m.dealer): the seat map alone identifies the state
ViewNoHist == <<m>>
CmpView == m
NoCrash == ~m.crashed
StepHolds == [][FailedSeat(h, h', m, m', out', Props) \subseteq Ignore]_vars
=============================================================================

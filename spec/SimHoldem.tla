------------------------------ MODULE SimHoldem ------------------------------
(***************************************************************************)
(* Script generation (direction A, DESIGN 3.2): TLC -simulate walks the     *)
(* precise model and prints each complete hand as a JSON script that the Go *)
(* driver replays, op by op, against the real engine.  The configuration is *)
(* chosen by staged set-up ACTIONS (TLC's simulator enumerates all initial  *)
(* states, so a large Init set would be prohibitive).  Scripts contain      *)
(* refused calls (out of turn, wrong phase, bad amounts) and `Rehydrate`    *)
(* cut points (a JSON round trip of the game: a stuttering step).           *)
(***************************************************************************)
EXTENDS Holdem, Json
CONSTANTS NSet, BankSet, Limits
VARIABLES gs, hist

RolePos(n, d, dead) ==
  IF n = 2 THEN [k \in 1..2 |-> IF k - 1 = d THEN {"dealer", "sb"} ELSE {"bb"}]
  ELSE [k \in 1..n |-> IF k - 1 = d THEN {"dealer"}
                       ELSE IF k - 1 = (d + 1) % n THEN (IF dead THEN {} ELSE {"sb"})
                       ELSE IF k - 1 = (d + 2) % n THEN {"bb"} ELSE {}]
Structs == {<<0,0,1,2>>, <<1,0,1,2>>, <<1,2,0,0>>, <<2,0,5,10>>, <<0,3,1,2>>, <<0,0,2,2>>}
Ones(g) == [i \in Seats(g) |-> [type |-> "", cards |-> <<>>, power |-> 1]]
WithStage(g) == [x \in (DOMAIN g) \cup {"stage"} |-> IF x = "stage" THEN "play" ELSE g[x]]
Init == gs = [stage |-> "n"] /\ hist = <<>>
Setup ==
  \/ /\ gs.stage = "n"
     /\ \E n \in NSet : \E d \in 0..(n-1) : \E dead \in BOOLEAN : \E st \in Structs : \E lim \in Limits :
           gs' = [stage |-> "bank", n |-> n, d |-> d, dead |-> (dead /\ n > 2), st |-> st, lim |-> lim, bank |-> <<>>]
     /\ hist' = hist
  \/ /\ gs.stage = "bank" /\ Len(gs.bank) < gs.n
     /\ \E v \in BankSet : gs' = [gs EXCEPT !.bank = Append(gs.bank, v)]
     /\ hist' = hist
  \/ /\ gs.stage = "bank" /\ Len(gs.bank) = gs.n
     /\ gs' = WithStage(NewGame([bank |-> gs.bank, pos |-> RolePos(gs.n, gs.d, gs.dead),
         meta |-> [ante |-> gs.st[1], dealerBlind |-> gs.st[2], sb |-> gs.st[3], bb |-> gs.st[4], limit |-> gs.lim,
                   holeN |-> 2, reqHole |-> 0, ranking |-> "standard", deck |-> [k \in 1..(2 * gs.n + 8) |-> k]]]))
     /\ hist' = <<[op |-> "cfg", bank |-> gs.bank, dealer |-> gs.d, dead |-> gs.dead, st |-> gs.st, limit |-> gs.lim]>>
Rec(name, i, x) == hist' = Append(hist, [op |-> name, seat |-> i, x |-> x])
Do(name, i, x, r) == r.ok /\ gs' = r.g /\ Rec(name, i, x)
\* a refused call: the model says the engine returns an error and changes nothing
Refused(name, i, x, r) == ~r.ok /\ gs' = gs /\ Rec(name, i, x)
Amts(g, i) == {1, g.cw + 1, g.cw + g.prs - 1, g.cw + g.prs, g.cw + g.prs + 1, 2 * g.cw + g.prs, g.P[i].init - 1, g.P[i].init, g.P[i].init + 1}
BadAmts(g) == {-1, 0, g.cw - 1}
Budget == Len(hist) < 140
Play ==
  \/ gs.ev = "" /\ Do("Start", -1, 0, OpStart(gs, Ones(gs)))
  \/ Do("ReadyForAll", -1, 0, OpReadyForAll(gs, Ones(gs)))
  \/ Do("PayAnte", -1, 0, OpPayAnte(gs, Ones(gs)))
  \/ Do("PayBlinds", -1, 0, OpPayBlinds(gs, Ones(gs)))
  \/ Do("Next", -1, 0, OpNext(gs, Ones(gs)))
  \/ /\ gs.ev = "RoundStarted"
     /\ LET i == gs.cur IN
        \/ Do("Fold", i, 0, OpFold(gs, i, Ones(gs)))
        \/ Do("Check", i, 0, OpCheck(gs, i, Ones(gs)))
        \/ Do("Call", i, 0, OpCall(gs, i, Ones(gs)))
        \/ Do("Call", i, 0, OpCall(gs, i, Ones(gs)))
        \/ Do("Check", i, 0, OpCheck(gs, i, Ones(gs)))
        \/ Do("Allin", i, 0, OpAllin(gs, i, Ones(gs)))
        \/ Do("Pass", i, 0, OpPass(gs, i, Ones(gs)))
        \/ \E x \in Amts(gs, i) : x > 0 /\ (Do("Bet", i, x, OpBet(gs, i, x, Ones(gs))) \/ Do("Raise", i, x, OpRaise(gs, i, x, Ones(gs))))
  \* cut point: the game is serialized and rebuilt (C07)
  \/ gs.ev \notin {"", "GameClosed"} /\ Budget /\ Len(hist) % 4 = 0 /\ gs' = gs /\ Rec("Rehydrate", -1, 0)
  \* refused calls
  \/ /\ gs.ev \notin {"", "GameClosed"} /\ Budget /\ Len(hist) % 7 = 3
     /\ \/ \E i \in {(Len(hist) \div 7) % gs.n} : \/ Refused("Fold", i, 0, OpFold(gs, i, Ones(gs)))
                                \/ Refused("Pass", i, 0, OpPass(gs, i, Ones(gs)))
                                \/ Refused("Allin", i, 0, OpAllin(gs, i, Ones(gs)))
                                \/ \E x \in BadAmts(gs) \cup {3} : Refused("Raise", i, x, OpRaise(gs, i, x, Ones(gs)))
                                                                   \/ Refused("Bet", i, x, OpBet(gs, i, x, Ones(gs)))
        \/ Refused("Next", -1, 0, OpNext(gs, Ones(gs)))
        \/ Refused("PayBlinds", -1, 0, OpPayBlinds(gs, Ones(gs)))
        \/ Refused("ReadyForAll", -1, 0, OpReadyForAll(gs, Ones(gs)))
Next == IF gs.stage = "play" THEN Play ELSE Setup
Spec == Init /\ [][Next]_<<gs, hist>>
Dump == (gs.stage = "play" /\ gs.ev = "GameClosed") => PrintT(<<"SCRIPT", ToJson(hist)>>)
=============================================================================

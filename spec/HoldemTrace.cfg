SPECIFICATION Spec
CONSTANTS
  TraceFile = "trace.ndjson"
  Props = {"C01","C04","C05","C06","C11","C12","C13","C14"}
  MaxViol = 40
CHECK_DEADLOCK FALSE

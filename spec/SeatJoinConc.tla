---------------------------- MODULE SeatJoinConc ----------------------------
(***************************************************************************)
(* C18, schedules: SeatManager.Join refined into the steps a goroutine      *)
(* takes -  Lock ; Check (seat empty?) ; Commit (take it) ; Unlock  - with  *)
(* the mutex as a variable.  TLC explores ALL interleavings of Procs        *)
(* goroutines joining seats of a small table and checks the episode         *)
(* predicates of SeatProps (one seat - one player, count, refusals).        *)
(* UseMutex = FALSE is the broken variant used by the self-test: TLC then   *)
(* finds the lost update (two players "seated" on one seat).                *)
(***************************************************************************)
EXTENDS SeatProps
CONSTANTS Procs, MaxSeats, UseMutex
VARIABLES seat, pc, mutex, res, pre, Targets   \* Targets : Procs -> the seat each goroutine asks for
vars == <<seat, pc, mutex, res, pre, Targets>>

Init == /\ seat \in [0..(MaxSeats - 1) -> {NULL, 99}]      \* some seats already taken by player 99
        /\ pre = seat /\ Targets \in [Procs -> 0..(MaxSeats - 1)]
        /\ pc = [p \in Procs |-> "start"] /\ mutex = NULL /\ res = [p \in Procs |-> "-"]
Lock(p) == /\ pc[p] = "start" /\ (UseMutex => mutex = NULL)
           /\ mutex' = (IF UseMutex THEN p ELSE mutex)
           /\ pc' = [pc EXCEPT ![p] = "check"] /\ UNCHANGED <<seat, res, pre, Targets>>
Check(p) == /\ pc[p] = "check"
            /\ IF seat[Targets[p]] # NULL
               THEN pc' = [pc EXCEPT ![p] = "unlock"] /\ res' = [res EXCEPT ![p] = "ErrNotAvailable"]
               ELSE pc' = [pc EXCEPT ![p] = "commit"] /\ res' = res      \* <- the gate of the verif hook sits here
            /\ UNCHANGED <<seat, mutex, pre, Targets>>
Commit(p) == /\ pc[p] = "commit"
             /\ seat' = [seat EXCEPT ![Targets[p]] = p] /\ res' = [res EXCEPT ![p] = ""]
             /\ pc' = [pc EXCEPT ![p] = "unlock"] /\ UNCHANGED <<mutex, pre, Targets>>
Unlock(p) == /\ pc[p] = "unlock" /\ pc' = [pc EXCEPT ![p] = "done"]
             /\ mutex' = (IF UseMutex THEN NULL ELSE mutex) /\ UNCHANGED <<seat, res, pre, Targets>>
Next == \E p \in Procs : Lock(p) \/ Check(p) \/ Commit(p) \/ Unlock(p)
Spec == Init /\ [][Next]_vars

AsMap(f) == [max |-> MaxSeats, seat |-> [s \in 0..(MaxSeats - 1) |-> [player |-> f[s], active |-> TRUE, reserved |-> f[s] # NULL /\ f[s] # 99]],
             dealer |-> NULL, sb |-> NULL, bb |-> NULL, crashed |-> FALSE]
ProcSeq == CHOOSE q \in [1..Cardinality(Procs) -> Procs] : \A a, b \in 1..Cardinality(Procs) : a # b => q[a] # q[b]
Calls == [k \in 1..Cardinality(Procs) |-> LET p == ProcSeq[k] IN [seat |-> Targets[p], p |-> p, got |-> IF res[p] = "" THEN Targets[p] ELSE -1, res |-> res[p]]]
\* at most one goroutine is ever between Check and Unlock
MutualExclusion == Cardinality({p \in Procs : pc[p] \in {"check", "commit", "unlock"}}) <= 1
EpisodeOK == (\A p \in Procs : pc[p] = "done") =>
   ConcBad(AsMap(pre), Calls, AsMap(seat), [enteredWhileHeld |-> 0, finishedWhileHeld |-> 0]) = {}
=============================================================================

---------------------------- MODULE SeatJoinConc ----------------------------
(***************************************************************************)
(* C18, schedules: SeatManager.Join refined into the steps a goroutine      *)
(* takes -  Lock ; Check (seat empty?) ; Commit (take it) ; Unlock  - with  *)
(* the mutex as a variable.  TLC explores ALL interleavings of Procs        *)
(* goroutines joining seats of a small table and checks the episode         *)
(* predicates of SeatProps (one seat - one player, count, refusals).        *)
(* UseMutex = FALSE is the broken variant used by the self-test: TLC then   *)
(* finds the lost update (two players "seated" on one seat).                *)
(***************************************************************************)
EXTENDS SeatProps, SeatJoinProto
\* the protocol itself (variables seat, pc, mutex, res, pre, Targets; Init, Lock, Check, Commit, Unlock, Next, Spec) is
\* SeatJoinProto.tla - the very module whose invariants SeatJoinProof.tla proves with TLAPS for all constants

AsMap(f) == [max |-> MaxSeats, seat |-> [s \in 0..(MaxSeats - 1) |-> [player |-> f[s], active |-> TRUE, reserved |-> f[s] # NULL /\ f[s] # Other]],
             dealer |-> NULL, sb |-> NULL, bb |-> NULL, crashed |-> FALSE]
ProcSeq == CHOOSE q \in [1..Cardinality(Procs) -> Procs] : \A a, b \in 1..Cardinality(Procs) : a # b => q[a] # q[b]
Calls == [k \in 1..Cardinality(Procs) |-> LET p == ProcSeq[k] IN [seat |-> Targets[p], p |-> p, got |-> IF res[p] = "" THEN Targets[p] ELSE -1, res |-> res[p]]]
\* at most one goroutine is ever between Check and Unlock
MutualExclusion == Cardinality({p \in Procs : pc[p] \in {"check", "commit", "unlock"}}) <= 1
EpisodeOK == (\A p \in Procs : pc[p] = "done") =>
   ConcBad(AsMap(pre), Calls, AsMap(seat), [enteredWhileHeld |-> 0, finishedWhileHeld |-> 0]) = {}
=============================================================================

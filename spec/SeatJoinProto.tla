--------------------------- MODULE SeatJoinProto ---------------------------
(***************************************************************************)
(* The protocol part of SeatJoinConc: SeatManager.Join refined into the     *)
(* steps a goroutine takes -  Lock ; Check (seat empty?) ; Commit (take     *)
(* it) ; Unlock  - with the mutex as a variable, for ANY set of goroutines  *)
(* and ANY number of seats.  SeatJoinConc.tla adds the episode predicates   *)
(* of SeatProps and is model-checked by TLC for small constants;            *)
(* SeatJoinProof.tla proves the protocol's invariants with TLAPS for all    *)
(* values of the constants.                                                 *)
(***************************************************************************)
EXTENDS Integers
CONSTANTS Procs, MaxSeats, UseMutex
VARIABLES seat, pc, mutex, res, pre, Targets   \* Targets : Procs -> the seat each goroutine asks for
vars == <<seat, pc, mutex, res, pre, Targets>>

NoOne == -1          \* an empty seat / a free mutex (NULL of SeatManager.tla)
Other == 99          \* a player seated before the episode
SeatIdsP == 0..(MaxSeats - 1)

Init == /\ seat \in [SeatIdsP -> {NoOne, Other}]      \* some seats already taken
        /\ pre = seat /\ Targets \in [Procs -> SeatIdsP]
        /\ pc = [p \in Procs |-> "start"] /\ mutex = NoOne /\ res = [p \in Procs |-> "-"]
Lock(p) == /\ pc[p] = "start" /\ (UseMutex => mutex = NoOne)
           /\ mutex' = (IF UseMutex THEN p ELSE mutex)
           /\ pc' = [pc EXCEPT ![p] = "check"] /\ UNCHANGED <<seat, res, pre, Targets>>
Check(p) == /\ pc[p] = "check"
            /\ IF seat[Targets[p]] # NoOne
               THEN pc' = [pc EXCEPT ![p] = "unlock"] /\ res' = [res EXCEPT ![p] = "ErrNotAvailable"]
               ELSE pc' = [pc EXCEPT ![p] = "commit"] /\ res' = res      \* <- the gate of the verif hook sits here
            /\ UNCHANGED <<seat, mutex, pre, Targets>>
Commit(p) == /\ pc[p] = "commit"
             /\ seat' = [seat EXCEPT ![Targets[p]] = p] /\ res' = [res EXCEPT ![p] = ""]
             /\ pc' = [pc EXCEPT ![p] = "unlock"] /\ UNCHANGED <<mutex, pre, Targets>>
Unlock(p) == /\ pc[p] = "unlock" /\ pc' = [pc EXCEPT ![p] = "done"]
             /\ mutex' = (IF UseMutex THEN NoOne ELSE mutex) /\ UNCHANGED <<seat, res, pre, Targets>>
Next == \E p \in Procs : Lock(p) \/ Check(p) \/ Commit(p) \/ Unlock(p)
Spec == Init /\ [][Next]_vars
=============================================================================

----------------------------- MODULE Settlement -----------------------------
(***************************************************************************)
(* Precise model of settlement/*.go: Result.AddPot / AddPlayer /            *)
(* UpdateScore / Calculate.  Per LEVEL of each pot the best score group of  *)
(* the level's contributors wins total \div k each, the odd chips of a pot  *)
(* are handed out in turn across its levels, losers lose the level wager.   *)
(***************************************************************************)
EXTENDS Pots

(* ---------- settlement: settlement/*.go ---------- *)
\* score[i] : 0 for folded.  acc = [chg : S -> Int, potw : Seq(Seq([idx, withdraw]))]
UpdateWinner(ws, i, amount) ==          \* settlement/pot.go: (*PotResult).UpdateWinner
  IF \E j \in 1..Len(ws) : ws[j].idx = i
  THEN [j \in 1..Len(ws) |-> IF ws[j].idx = i THEN [ws[j] EXCEPT !.withdraw = @ + amount] ELSE ws[j]]
  ELSE Append(ws, [idx |-> i, withdraw |-> amount])

\* CalculateWinnerRewards + CalculateLoserResults for one level of pot k.
\* off = PotResult.oddOffset: odd chips already handed out by earlier levels of the same pot
SettleLevel(l, score, acc, k, off) ==
  LET cs == l.contributors
      best == CHOOSE m \in {score[i] : i \in cs} : \A i \in cs : score[i] <= m
      winners == SeqOfSet({i \in cs : score[i] = best})
      n == Len(winners)
      based == l.total \div n
      rem == l.total % n
      o == off % n
      RECURSIVE W(_, _)
      W(a, j) ==
        IF j > n THEN a
        ELSE LET i == winners[j]
                 pos == ((j - 1) - o + n) % n
                 reward == based + (IF pos < rem THEN 1 ELSE 0)
                 wd == reward - l.wager
                 a1 == [a EXCEPT !.chg[i] = @ + wd]
             IN W(IF wd > 0 THEN [a1 EXCEPT !.potw[k] = UpdateWinner(@, i, wd + l.wager)] ELSE a1, j + 1)
      afterW == W(acc, 1)
      losers == cs \ {i \in cs : score[i] = best}
  IN [acc |-> [afterW EXCEPT !.chg = [i \in DOMAIN afterW.chg |-> IF i \in losers THEN afterW.chg[i] - l.wager ELSE afterW.chg[i]]],
      off |-> (o + rem) % n]

Settle(pots, score, S) ==
  LET RECURSIVE Lv(_, _, _, _)
      Lv(acc, k, j, off) ==      \* level j of pot k
        IF k > Len(pots) THEN acc
        ELSE IF j > Len(pots[k].levels) THEN Lv(acc, k + 1, 1, 0)
        ELSE LET r == SettleLevel(pots[k].levels[j], score, acc, k, off)
             IN Lv(r.acc, k, j + 1, r.off)
  IN Lv([chg |-> [i \in S |-> 0], potw |-> [k \in 1..Len(pots) |-> <<>>]], 1, 1, 0)
=============================================================================

------------------------------- MODULE MCPots -------------------------------
(***************************************************************************)
(* Exhaustive check of the precise pot / settlement models (Pots.tla,       *)
(* Settlement.tla) against the property layer PotProps (C16, C02) for ALL   *)
(* contribution / fold / strength vectors of NP players in the bounds.      *)
(* The vectors are built by staged actions (TLC computes initial states     *)
(* serially, so a large Init set would be prohibitive).                     *)
(***************************************************************************)
EXTENDS Settlement
CONSTANTS NPs, MaxC, MaxS
VARIABLES np, c, f, s, done
PP == INSTANCE PotProps
vars == <<np, c, f, s, done>>

Init == np \in NPs /\ c = <<>> /\ f = <<>> /\ s = <<>> /\ done = FALSE
Next ==
  \/ /\ Len(c) < np /\ \E v \in 0..MaxC : c' = Append(c, v) /\ UNCHANGED <<np, f, s, done>>
  \/ /\ Len(c) = np /\ Len(f) < np
     /\ \E b \in BOOLEAN : \E v \in 1..MaxS : (b => v = 1) /\ f' = Append(f, b) /\ s' = Append(s, v)
     /\ UNCHANGED <<np, c, done>>
  \/ /\ Len(f) = np /\ ~done /\ done' = TRUE /\ UNCHANGED <<np, c, f, s>>
Spec == Init /\ [][Next]_vars

S0 == 0..(np - 1)
Cf == [i \in S0 |-> c[i + 1]]
Ff == [i \in S0 |-> f[i + 1]]
Sf == [i \in S0 |-> s[i + 1]]
PotsOf == GetPots(Cf, Ff, S0)
ChgOf == Settle(PotsOf, [i \in S0 |-> IF Ff[i] THEN 0 ELSE Sf[i]], S0).chg
C16Holds == done => PP!FailedC16(S0, Cf, Ff, PotsOf) = {}
C02Holds == done => PP!FailedC02(S0, Cf, Ff, Sf, ChgOf) = {}
=============================================================================

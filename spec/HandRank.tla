------------------------------ MODULE HandRank ------------------------------
(***************************************************************************)
(* The hand evaluator (combination/power.go, combination/element.go,        *)
(* combination/combination.go, power.go) - two things, kept apart:          *)
(*                                                                          *)
(*  RefCat / RefKey : the RULES OF POKER - category of a five-card hand and *)
(*      a lexicographically ordered key <<category rank in the variant's    *)
(*      table, tie-break ranks ...>>; the ace plays low only in the wheel.  *)
(*  Score : the CODE's arithmetic - cumulative category offsets from        *)
(*      CombinationLevel in ranking-table order + base-13 positional value  *)
(*      of the rank groups ordered by multiplicity then rank; straights     *)
(*      maxRank - 5, wheel 0.                                               *)
(*  BestKeys : the best key among the admissible five-card selections of    *)
(*      hole + board (any 5 when req = 0; exactly req hole cards otherwise) *)
(*                                                                          *)
(* A card is the integer rank * 10 + suit (rank 2..14, suit 1..4).          *)
(***************************************************************************)
EXTENDS Integers, Sequences, FiniteSets, TLC

RankOf(c) == c \div 10
SuitOf(c) == c % 10
Cnt(H, v) == Cardinality({c \in H : RankOf(c) = v})
Ranks(H) == {RankOf(c) : c \in H}
\* rank groups ordered by multiplicity, then rank (both descending)
Groups(H) ==
  LET RECURSIVE G(_)
      G(S) == IF S = {} THEN <<>>
              ELSE LET m == CHOOSE v \in S : \A u \in S : Cnt(H, u) < Cnt(H, v) \/ (Cnt(H, u) = Cnt(H, v) /\ u <= v)
                   IN <<m>> \o G(S \ {m})
  IN G(Ranks(H))
Shape(H) == LET g == Groups(H) IN [k \in 1..Len(g) |-> Cnt(H, g[k])]
IsFlush(H) == Cardinality({SuitOf(c) : c \in H}) = 1
MaxR(H) == CHOOSE v \in Ranks(H) : \A u \in Ranks(H) : u <= v
MinR(H) == CHOOSE v \in Ranks(H) : \A u \in Ranks(H) : v <= u
IsWheel(H) == Ranks(H) = {14, 5, 4, 3, 2}
IsStraight(H) == Cardinality(Ranks(H)) = 5 /\ (MaxR(H) - MinR(H) = 4 \/ IsWheel(H))

\* category index = the code's Combination enum: 0 HighCard 1 Pair 2 TwoPair 3 ThreeOfAKind
\* 4 Straight 5 Flush 6 FullHouse 7 FourOfAKind 8 StraightFlush
RefCat(H) == LET sh == Shape(H) IN
  IF IsStraight(H) /\ IsFlush(H) THEN 8 ELSE IF sh = <<4, 1>> THEN 7 ELSE IF sh = <<3, 2>> THEN 6
  ELSE IF IsFlush(H) THEN 5 ELSE IF IsStraight(H) THEN 4 ELSE IF sh = <<3, 1, 1>> THEN 3
  ELSE IF sh = <<2, 2, 1>> THEN 2 ELSE IF sh = <<2, 1, 1, 1>> THEN 1 ELSE 0
CatName(cat) == <<"HighCard", "Pair", "TwoPair", "ThreeOfAKind", "Straight", "Flush", "FullHouse", "FourOfAKind", "StraightFlush">>[cat + 1]
\* order of categories in the variant's ranking table: flush above full house in short deck
CatRank(cat, table) == IF table = "short" /\ cat = 5 THEN 6 ELSE IF table = "short" /\ cat = 6 THEN 5 ELSE cat
RefKey(H, table) == LET cat == RefCat(H) IN
  <<CatRank(cat, table)>> \o (IF cat \in {4, 8} THEN <<IF IsWheel(H) THEN 5 ELSE MaxR(H)>> ELSE Groups(H))
RECURSIVE LexLess(_, _)
LexLess(a, b) == IF a = <<>> \/ b = <<>> THEN FALSE ELSE IF a[1] # b[1] THEN a[1] < b[1] ELSE LexLess(Tail(a), Tail(b))

(* ---- the code's score: CalculatePowerLevels + CalculatePowerScore ---- *)
Pow13(k) == <<1, 13, 169, 2197, 28561>>[k + 1]
LevelOf(cat) == <<371293, 28561, 2197, 2197, 13, 371293, 169, 169, 13>>[cat + 1]    \* CombinationLevel
TableSeq(table) == IF table = "short" THEN <<0, 1, 2, 3, 4, 6, 5, 7, 8>> ELSE <<0, 1, 2, 3, 4, 5, 6, 7, 8>>
Offset(cat, table) ==
  LET ts == TableSeq(table)
      k == CHOOSE k \in 1..9 : ts[k] = cat
      RECURSIVE S(_)
      S(j) == IF j = 0 THEN 0 ELSE LevelOf(ts[j]) + S(j - 1)
  IN S(k - 1)
Score(H, table) == LET cat == RefCat(H) g == Groups(H) IN
  Offset(cat, table) +
  (IF cat \in {4, 8} THEN (IF IsWheel(H) THEN 0 ELSE MaxR(H) - 5)
   ELSE LET RECURSIVE Z(_) Z(i) == IF i > Len(g) THEN 0 ELSE (g[i] - 2) * Pow13(Len(g) - i) + Z(i + 1) IN Z(1))

(* ---- best hand of a player ---- *)
KSubsets(S, k) == {X \in SUBSET S : Cardinality(X) = k}
Admissible(hole, board, req) ==
  IF req = 0 THEN KSubsets(hole \cup board, 5)
  ELSE {A \cup B : A \in KSubsets(hole, req), B \in KSubsets(board, 5 - req)}
\* no admissible selection beats H
Unbeaten(H, hole, board, req, table) ==
  LET key == RefKey(H, table) IN \A X \in Admissible(hole, board, req) : ~LexLess(key, RefKey(X, table))

\* a representative hand of a class (ranks given in any order + flush flag)
ClassHand(rs, flush) == {rs[k] * 10 + (IF flush THEN 1 ELSE ((k - 1) % 4) + 1) : k \in 1..5}
\* the short-deck A-6-7-8-9, whose classification C03 leaves open
ShortWheel(H) == Ranks(H) = {14, 9, 8, 7, 6}
=============================================================================

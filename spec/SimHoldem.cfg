SPECIFICATION Spec
CONSTANTS
  NSet = {2,3,4,5,6}
  BankSet = {1,2,3,5,8,13,21,40}
  Limits = {"no","pot"}
INVARIANT Dump
CHECK_DEADLOCK FALSE

------------------------------- MODULE MCRank -------------------------------
(***************************************************************************)
(* Model-level lemma behind C03/C10: the code's arithmetic Score is         *)
(* order-isomorphic to the reference order RefKey, for both ranking tables, *)
(* checked by TLC on ALL PAIRS of hand classes over the rank set RankSet    *)
(* (a pair of classes is one initial state).  The arithmetic does not       *)
(* depend on which ranks exist in the deck, so a reduced rank set exercises *)
(* the same formula; the full tables of the real evaluator are validated    *)
(* against RefKey by RankTrace.                                             *)
(***************************************************************************)
EXTENDS HandRank
CONSTANTS RankSet, Tables
VARIABLES a, b, tb

\* classes: descending rank 5-tuples with at most four equal ranks, plus a flush flag when ranks are distinct
Tuples == {t \in [1..5 -> RankSet] : (\A k \in 1..4 : t[k] >= t[k + 1]) /\ ~(t[1] = t[5])}
Classes == {<<t, f>> \in Tuples \X BOOLEAN : f => Cardinality({t[k] : k \in 1..5}) = 5}
H(cl) == ClassHand(cl[1], cl[2])
\* the first class is an initial state, the second one a step (so that the workers share the pairs)
Init == a \in Classes /\ b = <<>> /\ tb \in Tables
Next == b = <<>> /\ b' \in Classes /\ UNCHANGED <<a, tb>>
Spec == Init /\ [][Next]_<<a, b, tb>>
Skip(cl) == tb = "short" /\ ShortWheel(H(cl))
Iso == (b # <<>> /\ ~Skip(a) /\ ~Skip(b)) =>
  LET sa == Score(H(a), tb)  sb == Score(H(b), tb)  ka == RefKey(H(a), tb)  kb == RefKey(H(b), tb) IN
  /\ (sa = sb) <=> (ka = kb)
  /\ (sa < sb) <=> LexLess(ka, kb)
=============================================================================

--------------------------- MODULE SeatJoinProof ---------------------------
(***************************************************************************)
(* TLAPS proof, for ANY number of goroutines and seats, that the mutex      *)
(* protocol of SeatManager.Join (SeatJoinProto) keeps                       *)
(*   - at most one goroutine between Check and Unlock (MutualExclusionP),   *)
(*   - a seat taken by a successful join with that player for good, hence   *)
(*     never two successful joins on one seat (OneSeatOnePlayer),           *)
(*   - every refusal justified: the seat asked for is taken (RefusedOnlyWhenTaken). *)
(* C18: "... also when many joins race on different goroutines".            *)
(***************************************************************************)
EXTENDS SeatJoinProto, TLAPS

ASSUME MutexUsed == UseMutex = TRUE
ASSUME ProcsAreReal == NoOne \notin Procs /\ Other \notin Procs
ASSUME SeatsNat == MaxSeats \in Nat

InCS(p) == pc[p] \in {"check", "commit", "unlock"}
TypeOK == /\ seat \in [SeatIdsP -> Procs \cup {NoOne, Other}]
          /\ pc \in [Procs -> {"start", "check", "commit", "unlock", "done"}]
          /\ mutex \in Procs \cup {NoOne}
          /\ res \in [Procs -> {"-", "", "ErrNotAvailable"}]
          /\ Targets \in [Procs -> SeatIdsP]
Inv == /\ TypeOK
       /\ \A p \in Procs : InCS(p) <=> mutex = p
       /\ \A p \in Procs : pc[p] = "commit" => seat[Targets[p]] = NoOne
       /\ \A p \in Procs : res[p] = "" => seat[Targets[p]] = p
       /\ \A p \in Procs : res[p] = "ErrNotAvailable" => seat[Targets[p]] # NoOne

MutualExclusionP == \A p, q \in Procs : p # q => ~(InCS(p) /\ InCS(q))
OneSeatOnePlayer == \A p, q \in Procs : (p # q /\ res[p] = "" /\ res[q] = "") => Targets[p] # Targets[q]
RefusedOnlyWhenTaken == \A p \in Procs : res[p] = "ErrNotAvailable" => seat[Targets[p]] # NoOne

LEMMA InitInv == Init => Inv
  BY ProcsAreReal DEF Init, Inv, TypeOK, InCS, NoOne, Other

LEMMA NextInv == Inv /\ [Next]_vars => Inv'
<1> SUFFICES ASSUME Inv, [Next]_vars PROVE Inv'
  OBVIOUS
<1> USE MutexUsed, ProcsAreReal DEF Inv, TypeOK, InCS, NoOne, Other
<1>1. ASSUME NEW p \in Procs, Lock(p) PROVE Inv'
  BY <1>1 DEF Lock
<1>2. ASSUME NEW p \in Procs, Check(p) PROVE Inv'
  BY <1>2 DEF Check
<1>3. ASSUME NEW p \in Procs, Commit(p) PROVE Inv'
  BY <1>3 DEF Commit
<1>4. ASSUME NEW p \in Procs, Unlock(p) PROVE Inv'
  BY <1>4 DEF Unlock
<1>5. CASE UNCHANGED vars
  BY <1>5 DEF vars
<1>6. QED
  BY <1>1, <1>2, <1>3, <1>4, <1>5 DEF Next

THEOREM Safety == Spec => []Inv
  BY InitInv, NextInv, PTL DEF Spec

THEOREM InvMutex == Inv => MutualExclusionP
  BY ProcsAreReal DEF Inv, TypeOK, MutualExclusionP, InCS
THEOREM InvOneSeat == Inv => OneSeatOnePlayer
  BY DEF Inv, TypeOK, OneSeatOnePlayer
THEOREM InvRefused == Inv => RefusedOnlyWhenTaken
  BY DEF Inv, RefusedOnlyWhenTaken
=============================================================================

----------------------------- MODULE SeatTrace -----------------------------
(***************************************************************************)
(* Trace validation for seat_manager.SeatManager: one NDJSON line per       *)
(* public call recorded from the real object (every call under recover()),  *)
(* with the full seat map after the call.  Property layer: SeatProps        *)
(* (C08, C17, C18); conformance layer: SeatManager (MODEL-DRIFT).           *)
(* line kinds: reset | main | probe  (as in HoldemTrace)                    *)
(***************************************************************************)
EXTENDS SeatProps, Json
CONSTANTS TraceFile, Props, MaxViol
VARIABLES l, m, h, viol, drift, cnt
Trace == ndJsonDeserialize(TraceFile)

ToM(st) == [max |-> st.max,
            seat |-> [s \in 0..(st.max - 1) |-> LET q == st.seat[s + 1] IN [player |-> q.player, active |-> q.active, reserved |-> q.reserved]],
            dealer |-> st.dealer, sb |-> st.sb, bb |-> st.bb, crashed |-> FALSE]
ErrName(res) == CASE res = "" -> "" [] res = "PANIC" -> "PANIC"
   [] res = "seat_manager: not found seat" -> "ErrNotFoundSeat" [] res = "seat_manager: no available seat" -> "ErrNoAvailableSeat"
   [] res = "seat_manager: not available" -> "ErrNotAvailable" [] res = "seat_manager: invalid seat" -> "ErrInvalidSeat"
   [] res = "seat_manager: insufficient number of players" -> "ErrInsufficientNumberOfPlayers"
   [] res = "seat_manager: empty seat" -> "ErrEmptySeat" [] OTHER -> "OTHER:" \o res
\* calls through match.Table are recorded as MT.Join (judged as a Join) and MT.Apply (with positions, left seats, callbacks)
Call(ln) == [op |-> IF ln.op = "MT.Join" THEN "Join" ELSE ln.op, seat |-> ln.seat, p |-> ln.p, got |-> ln.got, res |-> ErrName(ln.res),
             left |-> IF ln.op = "MT.Apply" THEN ln.left ELSE <<>>, cbs |-> IF ln.op = "MT.Apply" THEN ln.cbs ELSE <<>>,
             pos |-> IF ln.op = "MT.Apply" THEN ln.pos ELSE <<>>]
Outcome(g, o) ==
  CASE o.op = "Join" -> IF o.seat = -1
                        THEN (IF JoinAnyChoices(g) = {} THEN R(g, "ErrNoAvailableSeat")
                              ELSE IF o.got \in JoinAnyChoices(g) THEN OpJoinAt(g, o.got, o.p) ELSE R(g, "NOT-A-CHOICE-OF-THE-MODEL"))
                        ELSE OpJoinAt(g, o.seat, o.p)
    [] o.op = "SitIn" -> OpSitIn(g, o.seat)
    [] o.op = "Reserve" -> OpReserve(g, o.seat)
    [] o.op = "Leave" -> OpLeave(g, o.seat)
    [] o.op = "Next" -> OpNext(g)
    [] o.op = "Reset" -> OpReset(g)
    [] o.op = "MT.Apply" -> OpApplySeatChanges(g, [dealer |-> o.pos[1], sb |-> o.pos[2], bb |-> o.pos[3], left |-> SeqSetS(o.left)])
    [] OTHER -> R(g, "?")
StepOK(g, o, t) == LET r == Outcome(g, o) IN r.res = o.res /\ (r.res = "PANIC" \/ [r.m EXCEPT !.crashed = FALSE] = t)

Bump(c, S) == [k \in (DOMAIN c) \cup S |-> (IF k \in DOMAIN c THEN c[k] ELSE 0) + (IF k \in S THEN 1 ELSE 0)]
AddViol(v, line, names) == v \cup {<<line, nm>> : nm \in {x \in names : Cardinality({w \in v : w[2] = x}) < MaxViol}}   \* at most MaxViol entries PER CLAUSE: a flood of one clause (a known finding) never hides another
First == IF Trace[1].kind = "conc" THEN NewSM(2) ELSE ToM(Trace[1].state)
Init == l = 1 /\ m = First /\ h = HistSJump(First) /\ viol = {} /\ drift = {} /\ cnt = [k \in {} |-> 0]
Step ==
  /\ l < Len(Trace) /\ l' = l + 1
  /\ LET ln == Trace[l + 1]
         t == IF ln.kind = "conc" THEN m ELSE ToM(ln.state)
         o == IF ln.kind = "conc" THEN [op |-> "conc", seat |-> -1, p |-> -1, got |-> -1, res |-> "", left |-> <<>>, cbs |-> <<>>, pos |-> <<>>] ELSE Call(ln)
     IN IF ln.kind = "conc"
        THEN /\ m' = m /\ h' = h /\ drift' = drift
             /\ viol' = AddViol(viol, l + 1, IF "C18" \in Props
                              THEN ConcBad(ToM(ln.pre), ln.calls, ToM(ln.post), [enteredWhileHeld |-> ln.enteredWhileHeld, finishedWhileHeld |-> ln.finishedWhileHeld])
                              ELSE {})
             /\ cnt' = Bump(cnt, {"conc.episodes"} \cup (IF ln.blockedOnMutex > 0 THEN {"conc.blockedOnMutex"} ELSE {})
                                  \cup (IF \E a, b \in 1..Len(ln.calls) : a # b /\ ln.calls[a].seat = ln.calls[b].seat /\ ln.calls[a].seat # -1 THEN {"conc.sameSeat"} ELSE {}))
        ELSE IF ln.kind = "reset"
        THEN m' = t
             /\ h' = (LET h0 == IF "posAtNext" \in DOMAIN ln THEN HistSJumpWith(t, ln.posAtNext, SeqSetS(ln.occAtNext)) ELSE HistSJump(t)
                      IN IF "lastDealer" \in DOMAIN ln THEN [h0 EXCEPT !.lastDealer = ln.lastDealer] ELSE h0)
             /\ viol' = viol /\ drift' = drift /\ cnt' = Bump(cnt, {"runs"})
        ELSE LET h2 == HistSNext(h, m, t, o) IN
             /\ viol' = AddViol(viol, l + 1, FailedSeat(h, h2, m, t, o, Props))
             /\ drift' = IF StepOK(m, o, t) \/ Cardinality(drift) >= MaxViol THEN drift ELSE drift \cup {l + 1}
             /\ cnt' = Bump(cnt, ExercisedSeat(h, m, t, o))
             /\ IF ln.kind = "probe" THEN m' = m /\ h' = h ELSE m' = t /\ h' = h2
  /\ (l + 1 = Len(Trace)) =>
        PrintT(<<"RESULT", ToJson([lines |-> Len(Trace), viol |-> viol', drift |-> drift', cnt |-> cnt'])>>)
Spec == Init /\ [][Step]_<<l, m, h, viol, drift, cnt>>
=============================================================================

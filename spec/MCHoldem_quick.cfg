SPECIFICATION Spec
CONSTANTS
  NSet = {2,3}
  BankSet = {1,2,4,7}
  Structs <- StructsQuick
  Limits = {"no"}
  AmtLo <- MinusOne
  AmtHi = 8
  S = 2
  Props = {"C01","C04","C05","C06","C11","C12","C13","C14"}
  TrackHist = TRUE
VIEW PropView
INVARIANTS StateOK
PROPERTIES StepOK
CHECK_DEADLOCK FALSE

---------------------------- MODULE HoldemProps ----------------------------
(***************************************************************************)
(* What properties C01, C04, C05, C06, C11, C12, C13, C14 DEMAND of one     *)
(* hand - exactly the statements of /verif/properties.jsonl, nothing more.  *)
(* This layer is independent of the precise model (Holdem.tla says what the *)
(* code does; this module says what it must do).                            *)
(*                                                                          *)
(* Every predicate is an operator over                                      *)
(*    g : state before the call        t : state after the call             *)
(*    o : the call  [op, seat, x, ok]  (ok <=> the call returned no error)  *)
(*    h : history record maintained by the wrapper (MC or trace) - see Hist *)
(* so that the SAME definitions are evaluated by TLC (a) on every reachable *)
(* state/step of the model (MCHoldem) and (b) on every recorded step of the *)
(* real implementation (HoldemTrace).                                       *)
(*                                                                          *)
(* Predicates are written to be TOTAL on arbitrary recorded states (a       *)
(* broken implementation may publish cur = -1, negative chips, ...).        *)
(***************************************************************************)
EXTENDS Holdem

ToSet(q) == {q[k] : k \in 1..Len(q)}
Min2(a, b) == IF a < b THEN a ELSE b
MaxOf(Sx) == CHOOSE m \in Sx : \A y \in Sx : y <= m
SumOver(S, F(_)) ==
  LET RECURSIVE G(_)
      G(T) == IF T = {} THEN 0 ELSE LET x == CHOOSE x \in T : TRUE IN F(x) + G(T \ {x})
  IN G(S)

Put(g, p) == g.P[p].pot + g.P[p].wager                    \* chips p has put in so far
ToMatch(g) == IF Seats(g) = {} THEN 0 ELSE MaxOf({g.P[i].wager : i \in Seats(g)})      \* the wager to match, read from the table
CurOK(g) == g.cur \in Seats(g)
IsAction(op) == op \in {"Fold", "Check", "Call", "Allin", "Pass", "Bet", "Raise"}
ActName(op) == CASE op = "Fold" -> "fold" [] op = "Check" -> "check" [] op = "Call" -> "call"
                 [] op = "Allin" -> "allin" [] op = "Pass" -> "pass" [] op = "Bet" -> "bet"
                 [] op = "Raise" -> "raise" [] OTHER -> "?"
Started(g) == g.ev # ""
Betting(g) == g.ev = "RoundStarted"
Dealers(g) == {i \in Seats(g) : Has(g, i, "dealer")}
BBSeats(g) == {i \in Seats(g) : Has(g, i, "bb")}
Offered(g, a) == CurOK(g) /\ a \in ToSet(g.P[g.cur].allowed)

-----------------------------------------------------------------------------
(* History variables (not part of the engine's state).                      *)
(*   valid    : FALSE after a jump into the middle of a betting round (the  *)
(*              exhaustive explorer records single transitions); the        *)
(*              history-dependent clauses of C05/C06 are then skipped until *)
(*              the next betting round starts                               *)
(*   hadTurn  : seats that acted since the wager to match last went up      *)
(*   since    : accepted actions since the last wager increase or all-in    *)
(*   noprog   : consecutive accepted steps without progress (C06)           *)
(*   anteDone, blindsDone : the forced-bet steps already happened (C13)     *)
(*   stackAtBlinds : seat -> stack just before the blinds were posted       *)
(*   mr       : the minimum raise of the round read from the chips on the     *)
(*              table: the big blind before any bet, then the size of the    *)
(*              last FULL bet or raise (a wager increase of at least mr);    *)
(*              the engine's own PreviousRaiseSize is tied to it by the      *)
(*              bridging clause C12.minRaiseIsLastFullRaise                  *)
Hist0 == [valid |-> TRUE, hadTurn |-> {}, since |-> 0, noprog |-> 0, mr |-> 0]
HistJump(t) == [valid |-> ~Betting(t), hadTurn |-> {}, since |-> 0, noprog |-> 0, mr |-> 0]
\* the minimum raise in force: from the table when the round was watched from its start, else the engine's field
MinRaise(g, h) == IF h.valid THEN h.mr ELSE g.prs

PhaseRank(g) ==
  LET r == CASE g.round = "" -> 0 [] g.round = "preflop" -> 1 [] g.round = "flop" -> 2
             [] g.round = "turn" -> 3 [] g.round = "river" -> 4 [] OTHER -> 5
      e == CASE g.ev = "" -> 0 [] g.ev = "ReadyRequested" -> (IF g.round = "" THEN 1 ELSE 4)
             [] g.ev = "AnteRequested" -> 2 [] g.ev = "BlindsRequested" -> 3
             [] g.ev = "RoundStarted" -> 5 [] g.ev = "RoundClosed" -> 6 [] g.ev = "GameClosed" -> 100
             [] OTHER -> 7
  IN r * 10 + e
Progress(g, t) ==
  \/ PhaseRank(t) # PhaseRank(g)
  \/ Cardinality(Alive(t)) # Cardinality(Alive(g))
  \/ Cardinality(Movable(t)) # Cardinality(Movable(g))
  \/ ToMatch(t) # ToMatch(g)

HistNext(h, g, t, o) ==
  LET accepted == o.ok /\ t # g
      enter == ~Betting(g) /\ Betting(t)
      act == Betting(g) /\ accepted /\ IsAction(o.op)
      i == o.seat
      wentUp == ToMatch(t) > ToMatch(g)
      allin == i \in Seats(g) /\ g.P[i].stack > 0 /\ t.P[i].stack = 0
  IN [valid |-> h.valid \/ enter,
      hadTurn |-> IF enter THEN {} ELSE IF act THEN (IF wentUp THEN {i} ELSE h.hadTurn \cup {i}) ELSE h.hadTurn,
      since |-> IF enter THEN 0 ELSE IF act THEN (IF wentUp \/ allin THEN 0 ELSE h.since + 1) ELSE h.since,
      noprog |-> IF ~accepted THEN h.noprog ELSE IF Progress(g, t) THEN 0 ELSE h.noprog + 1,
      mr |-> IF enter THEN (IF t.round = "preflop" THEN (IF t.meta.bb > 0 THEN t.meta.bb ELSE t.prs) ELSE 0)
             \* a bet sets it; a raise or an all-in sets it when it is a full raise; a call never does (not even the
             \* engine's completion of a call up to the big blind, nor Raise(x) with x = the wager to match, which is a call)
             ELSE IF act /\ wentUp /\ o.op = "Bet" THEN ToMatch(t) - ToMatch(g)
             ELSE IF act /\ wentUp /\ (o.op = "Allin" \/ (o.op = "Raise" /\ o.x > ToMatch(g))) /\ ToMatch(t) - ToMatch(g) >= h.mr
                  THEN ToMatch(t) - ToMatch(g)
             ELSE h.mr]

-----------------------------------------------------------------------------
(* C01 - chips are conserved at every point of a hand                       *)
C01_identity(t) == Started(t) =>
  \A i \in Seats(t) : LET p == t.P[i] IN
     p.bankroll = p.stack + p.wager + p.pot /\ p.stack >= 0 /\ p.wager >= 0 /\ p.pot >= 0
C01_roundPot(t) == Started(t) => t.roundPot = SumOver(Seats(t), LAMBDA i : t.P[i].wager)
PotsTotal(t) == SumOver(1..Len(t.pots), LAMBDA k : t.pots[k].total)
\* pots are (re)published when a round closes, at the settlement, and when the antes are collected
C01_pots(t) == t.ev \in {"RoundClosed", "GameClosed"} =>
  PotsTotal(t) = SumOver(Seats(t), LAMBDA i : Put(t, i))
C01_antePots(g, t, o) == (o.op = "PayAnte" /\ o.ok) =>
  PotsTotal(t) = SumOver(Seats(t), LAMBDA i : Put(t, i))
C01_result(t) == t.ev = "GameClosed" =>
  /\ t.result # NULL
  /\ t.result.extra = 0
  /\ \A i \in Seats(t) : t.result.players[i].present
  /\ SumOver(Seats(t), LAMBDA i : t.result.players[i].changed) = 0
  /\ \A i \in Seats(t) : LET r == t.result.players[i] IN
        r.final = t.P[i].bankroll + r.changed /\ r.final >= 0 /\ r.changed >= 0 - Put(t, i)

(* C02 / C16 on the engine: the published pots and the settlement of real   *)
(* play, judged by the input/output predicates of PotProps                   *)
PP == INSTANCE PotProps
PutOf(t) == [i \in Seats(t) |-> Put(t, i)]
FoldOf(t) == [i \in Seats(t) |-> t.P[i].fold]
PowerOf(t) == [i \in Seats(t) |-> IF t.P[i].comb = NULL THEN 0 ELSE t.P[i].comb.power]
PotsPublished(t) == t.ev \in {"RoundClosed", "GameClosed"}
EngineC16(t) == IF PotsPublished(t) THEN PP!FailedC16(Seats(t), PutOf(t), FoldOf(t), t.pots) ELSE {}
ResultOK(t) == t.result # NULL /\ \A i \in Seats(t) : t.result.players[i].present
EngineC02(t) ==
  IF t.ev # "GameClosed" THEN {}
  ELSE IF ~ResultOK(t) THEN {"C02.noResult"}
  ELSE PP!FailedC02(Seats(t), PutOf(t), FoldOf(t), PowerOf(t), [i \in Seats(t) |-> t.result.players[i].changed])

(* C10 - each player's reported hand is their true best hand                *)
HR == INSTANCE HandRank
TableOf(t) == IF t.meta.ranking = "short" THEN "short" ELSE "standard"
OpenClass(t, H) == TableOf(t) = "short" /\ HR!ShortWheel(H)     \* classification left open by C03
\* re : seat -> [type, power] = the evaluator re-run by the driver on the reported five cards
C10_seat(t, i, re) ==
  LET p == t.P[i]
      hole == ToSet(p.hole)  board == ToSet(t.board)  req == t.meta.reqHole
  IN IF p.comb = NULL THEN {"C10.reported"}
     ELSE LET H == ToSet(p.comb.cards) IN
       IF ~(Len(p.comb.cards) = 5 /\ Cardinality(H) = 5 /\ H \subseteq (hole \cup board) /\ 0 \notin H)
       THEN {"C10.fiveOwnCards"}
       ELSE (IF H \in HR!Admissible(hole, board, req) THEN {} ELSE {"C10.admissible"}) \cup
            (IF OpenClass(t, H) \/ \A X \in HR!Admissible(hole, board, req) :
                   OpenClass(t, X) \/ ~HR!LexLess(HR!RefKey(H, TableOf(t)), HR!RefKey(X, TableOf(t)))
             THEN {} ELSE {"C10.best"}) \cup
            (IF OpenClass(t, H) \/ p.comb.type = HR!CatName(HR!RefCat(H)) THEN {} ELSE {"C10.category"}) \cup
            (IF p.comb.type = re[i].type /\ p.comb.power = re[i].power THEN {} ELSE {"C10.sameHand"})
BoardChanged(g, t) == Len(t.board) # Len(g.board) \/ t.n # g.n
C10_fresh(t, re) == IF Len(t.board) >= 3 THEN UNION {C10_seat(t, i, re) : i \in Seats(t)} ELSE {}
C10_stable(g, t) == (~BoardChanged(g, t) /\ Len(t.board) >= 3) => \A i \in Seats(t) : t.P[i].comb = g.P[i].comb
\* conformance of the evaluation with the arithmetic of HandRank.Score (drift layer)
C10_scoreModel(t) == Len(t.board) >= 3 =>
  \A i \in Seats(t) : LET c == t.P[i].comb IN
     (c # NULL /\ Len(c.cards) = 5 /\ Cardinality(ToSet(c.cards)) = 5 /\ ~OpenClass(t, ToSet(c.cards))) => c.power = HR!Score(ToSet(c.cards), TableOf(t))

(* C04 - only the player to act can act, clockwise, in the right phase      *)
C04_oneOffered(t) == Betting(t) =>
  /\ CurOK(t)
  /\ t.P[t.cur].allowed # <<>>
  /\ \A j \in Seats(t) \ {t.cur} : t.P[j].allowed = <<>>
C04_passOnly(t) == (Betting(t) /\ CurOK(t)) =>
  ((t.P[t.cur].fold \/ t.P[t.cur].stack = 0) => t.P[t.cur].allowed = <<"pass">>)
\* the first to act of a betting round
FirstToAct(t) ==
  IF t.round = "preflop" /\ BBSeats(t) # {} THEN NextSeat(t, CHOOSE b \in BBSeats(t) : TRUE)
  ELSE NextSeat(t, CHOOSE d \in Dealers(t) : TRUE)
\* (before the flop with no seat holding the big blind the statement names nobody: left open - the no-bb pass plays such layouts)
C04_first(g, t, o) == (~Betting(g) /\ Betting(t) /\ Dealers(t) # {} /\ (t.round # "preflop" \/ BBSeats(t) # {})) => t.cur = FirstToAct(t)
C04_clockwise(g, t, o) == (Betting(g) /\ Betting(t) /\ o.ok /\ t # g /\ CurOK(g)) =>
  (o.seat = g.cur /\ t.cur = NextSeat(g, g.cur))
\* which calls must be refused (by another seat / not offered / wrong phase)
MustRefuse(g, o) ==
  \/ IsAction(o.op) /\ (~Betting(g) \/ ~CurOK(g) \/ o.seat # g.cur \/ ActName(o.op) \notin ToSet(g.P[g.cur].allowed))
  \/ o.op = "ReadyForAll" /\ g.ev # "ReadyRequested"
  \/ o.op = "PayAnte" /\ g.ev # "AnteRequested"
  \/ o.op = "PayBlinds" /\ g.ev # "BlindsRequested"
  \/ o.op = "Next" /\ g.ev # "RoundClosed"
\* an accepted action of the player to act is carried out as an action that player WAS offered: what the engine records
\* as the thing the player did (did_action) is one of the offers (a raise request may end as an all-in or - at the level
\* already standing - as a call, a bet as an all-in: always offered alternatives; Pass leaves no record).  Seeded change
\* R4d-A: Raise(wager to match) in a check-or-raise spot was carried out as a call that was not offered.
C04_actedAsOffered(g, t, o) ==
  (Betting(g) /\ CurOK(g) /\ IsAction(o.op) /\ o.op # "Pass" /\ o.seat = g.cur /\ o.ok /\ t # g /\ t.n = g.n) =>
     t.P[g.cur].did \in ToSet(g.P[g.cur].allowed)
C04_refused(g, t, o) == (Started(g) /\ MustRefuse(g, o)) => (~o.ok /\ t = g)

(* C05 - a betting round closes exactly when it should                      *)
\* also when a round is closed WITHOUT having been opened (everybody all-in from the blinds, run-outs): nobody with
\* chips may be left owing; the "had a turn" part applies to rounds that were opened
C05_notEarly(g, t, o, h2) == (g.ev # "RoundClosed" /\ t.ev = "RoundClosed" /\ o.ok /\ Cardinality(Alive(t)) >= 2) =>
  \A p \in Movable(t) : t.P[p].wager = ToMatch(t) /\ ((Betting(g) /\ h2.valid) => p \in h2.hadTurn)
C05_notLate(t, h2) == (Betting(t) /\ h2.valid) => h2.since <= t.n
C05_oneLeft(g, t, o) == (Betting(g) /\ o.ok /\ Cardinality(Alive(t)) = 1) => t.ev = "RoundClosed"
C05_oneLeftEnds(g, t, o) == (g.ev = "RoundClosed" /\ Cardinality(Alive(g)) = 1 /\ o.op = "Next" /\ o.ok) =>
  (t.ev = "GameClosed" /\ t.board = g.board /\ t.deckPos = g.deckPos)
\* no further betting round is opened with fewer than two players with chips
C05_noRoundWhenAllin(g, t, o) == (~Betting(g) /\ Betting(t) /\ t.round # "preflop") => Cardinality(Movable(t)) >= 2
C05_fullBoard(t) == (t.ev = "GameClosed" /\ Cardinality(Alive(t)) >= 2) => (Len(t.board) = 5 /\ Len(t.burned) = 3)

(* C06 - the hand tells its driver what comes next and always finishes      *)
WaitPoints == {"ReadyRequested", "AnteRequested", "BlindsRequested", "RoundStarted", "RoundClosed", "GameClosed"}
C06_waitPoint(t) == Started(t) => t.ev \in WaitPoints
\* the SINGLE thing: while the hand waits for a table operation (everyone ready, antes, blinds, moving on) or is
\* closed, no seat is offered an action (during a betting round the offers are those of the player to act: C04)
C06_singleThing(t) == (Started(t) /\ t.ev \in (WaitPoints \ {"RoundStarted"})) => \A i \in Seats(t) : t.P[i].allowed = <<>>
\* ... and during a betting round it DOES say what it is waiting for: the player to act exists and is offered something
\* (a hand that sits in a betting round with nobody offered anything waits for nothing a driver could do)
C06_indicates(t) == Betting(t) => (CurOK(t) /\ t.P[t.cur].allowed # <<>>)
StartAllowed(g) == g.n >= 2 /\ Dealers(g) # {} /\ (\A i \in Seats(g) : g.P[i].bankroll > 0) /\ Len(g.meta.deck) > 0
\* "starts ONLY with ...": the four conditions are necessary for every layout; that they are also enough is demanded of the
\* layouts every table produces (some seat holds the big blind) - the engine happens to accept a layout that names a dealer only
\* (the no-bb pass plays such hands), but an engine that asked for more there would still start "only with" the four conditions
HasBigBlindSeat(g) == \E i \in Seats(g) : Has(g, i, "bb")
C06_start(g, t, o) == (o.op = "Start" /\ ~Started(g)) =>
  /\ o.ok => StartAllowed(g)
  /\ (StartAllowed(g) /\ HasBigBlindSeat(g)) => o.ok
  /\ o.ok => Started(t)
  /\ ~o.ok => t = g
\* the single thing the hand is waiting for, performed: it succeeds and moves the hand on.  For bet and raise "that
\* step" is an offered action of a LEGAL size (C11: "every offered action and every legal size"): a bet of a positive
\* amount below the stack; in no-limit a raise to a level below the stack that lifts the wager to match by at least the
\* minimum raise.  What happens to other sizes is C12's matter (all-in or refused), not a step the hand is waiting for.
LegalSize(g, o, h) ==
  /\ o.op = "Bet" => (o.x > 0 /\ o.x < g.P[g.cur].stack)
  /\ o.op = "Raise" => (g.meta.limit = "no" /\ o.x < g.P[g.cur].init /\ o.x > ToMatch(g) /\ o.x - ToMatch(g) >= MinRaise(g, h))
Expected(g, o, h) ==
  \/ o.op = "ReadyForAll" /\ g.ev = "ReadyRequested"
  \/ o.op = "PayAnte" /\ g.ev = "AnteRequested"
  \/ o.op = "PayBlinds" /\ g.ev = "BlindsRequested"
  \/ o.op = "Next" /\ g.ev = "RoundClosed"
  \/ /\ Betting(g) /\ IsAction(o.op) /\ CurOK(g) /\ o.seat = g.cur /\ Offered(g, ActName(o.op))
     /\ LegalSize(g, o, h)
C06_succeeds(g, t, o, h) == Expected(g, o, h) => (o.ok /\ t # g)
RoundIdx(r) == CASE r = "" -> 0 [] r = "preflop" -> 1 [] r = "flop" -> 2 [] r = "turn" -> 3 [] r = "river" -> 4 [] OTHER -> 99
C06_streets(g, t, o) == RoundIdx(t.round) \in {RoundIdx(g.round), RoundIdx(g.round) + 1}
C06_result(t) == (t.result # NULL) <=> (t.ev = "GameClosed")
\* (re-hydrating the game is not an operation of the hand: it is what the harness / a backend does between operations)
C06_closedIsFinal(g, t, o) == (g.ev = "GameClosed" /\ o.op # "Rehydrate") => (~o.ok /\ t = g)
C06_bounded(t, h2) == h2.noprog <= 2 * t.n

(* C11 - offered actions fit the situation and do what they say             *)
MinBet(g) == IF g.meta.dealerBlind > g.meta.bb THEN g.meta.dealerBlind ELSE g.meta.bb
C11_offer(t, h2) == (Betting(t) /\ CurOK(t)) =>
  LET p == t.P[t.cur]  A == ToSet(p.allowed)  tm == ToMatch(t)  facing == p.wager < tm IN
  IF p.fold \/ p.stack = 0 THEN p.allowed = <<"pass">>
  ELSE /\ "allin" \in A /\ "pass" \notin A
       /\ ("fold" \in A) <=> facing
       /\ ("check" \in A) <=> ~facing
       /\ (facing /\ p.init > tm) => "call" \in A
       /\ "call" \in A => facing
       /\ (tm = 0 /\ p.init >= MinBet(t)) => "bet" \in A
       /\ "bet" \in A => tm = 0
       /\ (tm > 0 /\ p.init > tm + MinRaise(t, h2) /\ p.init >= MinBet(t)) => "raise" \in A
       /\ "raise" \in A => tm > 0
NoChipsMoved(g, t) ==
  /\ \A j \in Seats(g) : t.P[j].stack = g.P[j].stack /\ t.P[j].wager = g.P[j].wager /\ t.P[j].pot = g.P[j].pot
  /\ t.roundPot = g.roundPot /\ ToMatch(t) = ToMatch(g)
\* an accepted action of the player to act
Acts(g, t, o) == Betting(g) /\ o.ok /\ CurOK(g) /\ o.seat = g.cur /\ IsAction(o.op) /\ t.n = g.n
C11_effect(g, t, o) == Acts(g, t, o) =>
  LET i == o.seat IN
  /\ o.op \in {"Check", "Fold", "Pass"} => NoChipsMoved(g, t)
  \* level with the wager to match - never beyond it (the engine completes a call of less than the big blind
  \* up to the big blind: that is the furthest a call may go), never short of it unless the caller is all-in
  /\ o.op = "Call" => /\ t.P[i].wager = ToMatch(t)
                      /\ t.P[i].wager <= Max2(ToMatch(g), g.meta.bb)
                      /\ (t.P[i].wager >= ToMatch(g) \/ t.P[i].stack = 0)
  /\ (o.op = "Bet" /\ 0 < o.x /\ o.x < g.P[i].stack) => (ToMatch(t) = o.x /\ t.P[i].wager = o.x)
  /\ o.op = "Allin" => (t.P[i].wager = g.P[i].init /\ t.P[i].stack = 0)

(* C12 - raise sizes obey the minimum-raise rule; amounts cannot corrupt    *)
C12_cwIsToMatch(t) == t.ev \in {"RoundStarted", "RoundClosed"} => t.cw = ToMatch(t)
C12_raise(g, t, o, h) ==
  (o.op = "Raise" /\ Betting(g) /\ CurOK(g) /\ o.seat = g.cur /\ Offered(g, "raise") /\ g.meta.limit = "no" /\ t.n = g.n) =>
  LET i == o.seat  L == o.x  tm == ToMatch(g) IN
  /\ (L < g.P[i].init /\ L > tm /\ L - tm >= MinRaise(g, h)) =>
        (o.ok /\ ToMatch(t) = L /\ t.cw = L /\ t.raiser = i /\ t.prs = L - tm /\ t.P[i].wager = L)
  /\ (L > tm /\ L - tm < MinRaise(g, h)) => (~o.ok \/ t.P[i].stack = 0)
  /\ (L < tm) => (~o.ok /\ t = g)
C12_monotone(g, t, o) ==
  (Betting(g) /\ t.round = g.round /\ t.ev \in {"RoundStarted", "RoundClosed"}) => (ToMatch(t) >= ToMatch(g) /\ t.cw >= g.cw)
\* the engine's minimum-raise field is the size of the last full bet or raise (the big blind before any)
C12_minRaise(t, h2) == (Betting(t) /\ h2.valid) => t.prs = h2.mr
C12_bounds(t) == Started(t) =>
  /\ \A i \in Seats(t) : LET p == t.P[i] IN p.stack >= 0 /\ p.wager >= 0 /\ p.pot >= 0 /\ p.stack <= p.bankroll
  /\ \A k \in 1..Len(t.pots) : t.pots[k].total >= 0
  /\ t.roundPot >= 0

(* C13 - antes and blinds: right seats, right amounts                       *)
Blind(g, i) == LET m == g.meta IN
   IF m.bb > 0 /\ Has(g, i, "bb") THEN m.bb ELSE IF m.sb > 0 /\ Has(g, i, "sb") THEN m.sb
   ELSE IF m.dealerBlind > 0 /\ Has(g, i, "dealer") THEN m.dealerBlind ELSE 0
HasBlinds(g) == g.meta.bb > 0 \/ g.meta.sb > 0 \/ g.meta.dealerBlind > 0
C13_ante(g, t, o) == (o.op = "PayAnte" /\ o.ok /\ t.n = g.n) =>
  /\ \A i \in Seats(t) : t.P[i].pot = Min2(g.meta.ante, g.P[i].bankroll) /\ t.P[i].wager = 0
  /\ t.cw = 0
\* before the first betting round: the state in which the engine waits for "ready" on preflop
\* with the blinds behind it (also reached when the engine skips the blind phase)
BlindsBehind(g, t, o) == t.round = "preflop" /\ t.ev = "ReadyRequested" /\ (g.round # "preflop" \/ g.ev # "ReadyRequested") /\ o.ok /\ t.n = g.n
C13_blinds(g, t, o) == BlindsBehind(g, t, o) =>
  /\ \A i \in Seats(t) : t.P[i].pot = Min2(t.meta.ante, t.P[i].bankroll)
  /\ \A i \in Seats(t) : t.P[i].wager = Min2(Blind(t, i), t.P[i].init)
  /\ t.cw = ToMatch(t)
  /\ t.meta.bb > 0 => t.prs = t.meta.bb
\* the first betting round never starts with a forced bet missing
C13_beforeBetting(t) == (Betting(t) /\ t.round = "preflop") =>
  \A i \in Seats(t) : t.P[i].pot = Min2(t.meta.ante, t.P[i].bankroll) /\ t.P[i].wager >= Min2(Blind(t, i), t.P[i].init)

(* C14 - cards are dealt without loss, duplication or change                *)
Cat(ss) == LET RECURSIVE F(_) F(k) == IF k > Len(ss) THEN <<>> ELSE ss[k] \o F(k + 1) IN F(1)
\* everything dealt so far: hole cards, burned cards, board.  The property fixes WHICH cards are out (the consumed
\* top of the deck, each once) and that a card is burned before each street - not the order in which the hole
\* cards go round the table
Dealt(t) == Cat([k \in 1..t.n |-> t.P[k - 1].hole]) \o t.burned \o t.board
IsPrefixOf(a, b) == Len(a) <= Len(b) /\ SubSeq(b, 1, Len(a)) = a
NoRepeat(s) == \A a, b \in 1..Len(s) : a # b => s[a] # s[b]
SameCards(a, b) == Len(a) = Len(b) /\ \A c \in ToSet(a) \cup ToSet(b) :
   Cardinality({k \in 1..Len(a) : a[k] = c}) = Cardinality({k \in 1..Len(b) : b[k] = c})
DeckPosOf(t, c) == LET I == {i \in 1..Len(t.meta.deck) : t.meta.deck[i] = c} IN IF I = {} THEN 0 ELSE CHOOSE i \in I : \A j \in I : i <= j
\* the k-th burned card lies in the deck before the cards of the street it was burned for
StreetCards(t, k) == IF k = 1 THEN SubSeq(t.board, 1, IF Len(t.board) < 3 THEN Len(t.board) ELSE 3)
                     ELSE IF Len(t.board) >= k + 2 THEN <<t.board[k + 2]>> ELSE <<>>
BurnedFirst(t) == \A k \in 1..Len(t.burned) : k <= 3 =>
                     \A j \in 1..Len(StreetCards(t, k)) : DeckPosOf(t, t.burned[k]) < DeckPosOf(t, StreetCards(t, k)[j])
C14_consumed(t) == Started(t) =>
  /\ t.deckPos \in 0..Len(t.meta.deck)
  /\ SameCards(Dealt(t), SubSeq(t.meta.deck, 1, t.deckPos))
  /\ NoRepeat(Dealt(t))
  /\ BurnedFirst(t)
C14_counts(t) == Started(t) =>
  /\ \A i \in Seats(t) : Len(t.P[i].hole) = (IF t.round = "" THEN 0 ELSE t.meta.holeN)
  /\ <<Len(t.board), Len(t.burned)>> =
       (CASE t.round \in {"", "preflop"} -> <<0, 0>> [] t.round = "flop" -> <<3, 1>>
          [] t.round = "turn" -> <<4, 2>> [] t.round = "river" -> <<5, 3>> [] OTHER -> <<-1, -1>>)
C14_stable(g, t, o) == (Started(g) /\ t.n = g.n) =>
  /\ t.meta.deck = g.meta.deck
  /\ IsPrefixOf(g.board, t.board) /\ IsPrefixOf(g.burned, t.burned)
  /\ \A i \in Seats(g) : IsPrefixOf(g.P[i].hole, t.P[i].hole)
  /\ t.deckPos >= g.deckPos
\* Start shuffles: `shuffled` is the deck the engine produced from `g.meta.deck`
C14_shuffle(g, o, shuffled) == (o.op = "Start" /\ o.ok) => SameCards(g.meta.deck, shuffled)

-----------------------------------------------------------------------------
(* What the wrappers (MCHoldem, HoldemTrace) evaluate: the names of the     *)
(* clauses of the selected properties that do NOT hold on a state / step.   *)
N(name, holds) == IF holds THEN {} ELSE {name}
FailedState(t, h2, props) ==
  (IF "C02" \in props THEN EngineC02(t) ELSE {}) \cup
  (IF "C16" \in props THEN EngineC16(t) ELSE {}) \cup
  (IF "C01" \in props THEN N("C01.identity", C01_identity(t)) \cup N("C01.roundPot", C01_roundPot(t))
                           \cup N("C01.pots", C01_pots(t)) \cup N("C01.result", C01_result(t)) ELSE {}) \cup
  (IF "C04" \in props THEN N("C04.oneOffered", C04_oneOffered(t)) \cup N("C04.passOnly", C04_passOnly(t)) ELSE {}) \cup
  (IF "C05" \in props THEN N("C05.notLate", C05_notLate(t, h2)) \cup N("C05.fullBoard", C05_fullBoard(t)) ELSE {}) \cup
  (IF "C06" \in props THEN N("C06.waitPoint", C06_waitPoint(t)) \cup N("C06.singleThing", C06_singleThing(t)) \cup N("C06.indicates", C06_indicates(t)) \cup N("C06.result", C06_result(t))
                           \cup N("C06.bounded", C06_bounded(t, h2)) ELSE {}) \cup
  (IF "C11" \in props THEN N("C11.offer", C11_offer(t, h2)) ELSE {}) \cup
  (IF "C12" \in props THEN N("C12.cwIsToMatch", C12_cwIsToMatch(t)) \cup N("C12.bounds", C12_bounds(t))
                           \cup N("C12.minRaiseIsLastFullRaise", C12_minRaise(t, h2)) ELSE {}) \cup
  (IF "C13" \in props THEN N("C13.beforeBetting", C13_beforeBetting(t)) ELSE {}) \cup
  (IF "C14" \in props THEN N("C14.consumed", C14_consumed(t)) \cup N("C14.counts", C14_counts(t)) ELSE {})
FailedStep(g, t, o, h, h2, props) ==
  (IF "C01" \in props THEN N("C01.antePots", C01_antePots(g, t, o)) ELSE {}) \cup
  (IF "C04" \in props THEN N("C04.first", C04_first(g, t, o)) \cup N("C04.clockwise", C04_clockwise(g, t, o))
                           \cup N("C04.refused", C04_refused(g, t, o)) \cup N("C04.actedAsOffered", C04_actedAsOffered(g, t, o)) ELSE {}) \cup
  (IF "C05" \in props THEN N("C05.notEarly", C05_notEarly(g, t, o, h2)) \cup N("C05.oneLeft", C05_oneLeft(g, t, o))
                           \cup N("C05.oneLeftEnds", C05_oneLeftEnds(g, t, o))
                           \cup N("C05.noRoundWhenAllin", C05_noRoundWhenAllin(g, t, o)) ELSE {}) \cup
  (IF "C06" \in props THEN N("C06.start", C06_start(g, t, o)) \cup N("C06.succeeds", C06_succeeds(g, t, o, h))
                           \cup N("C06.streets", C06_streets(g, t, o))
                           \cup N("C06.closedIsFinal", C06_closedIsFinal(g, t, o)) ELSE {}) \cup
  (IF "C11" \in props THEN N("C11.effect", C11_effect(g, t, o)) ELSE {}) \cup
  (IF "C12" \in props THEN N("C12.raise", C12_raise(g, t, o, h)) \cup N("C12.monotone", C12_monotone(g, t, o)) ELSE {}) \cup
  (IF "C13" \in props THEN N("C13.ante", C13_ante(g, t, o)) \cup N("C13.blinds", C13_blinds(g, t, o)) ELSE {}) \cup
  (IF "C14" \in props THEN N("C14.stable", C14_stable(g, t, o)) ELSE {})

(* Non-vacuity: names of the antecedents that were TRUE on this step.  The  *)
(* wrappers count them; a property whose antecedent never fires was not     *)
(* exercised.                                                               *)
Exercised(g, t, o, h, h2) ==
  (IF o.op = "PayAnte" /\ o.ok THEN {"C01.antePots", "C13.ante"} ELSE {}) \cup
  (IF t.ev = "GameClosed" /\ g.ev # "GameClosed" THEN {"C01.result"} ELSE {}) \cup
  (IF t.ev = "GameClosed" /\ g.ev # "GameClosed" /\ Cardinality(Alive(t)) >= 2 THEN {"C05.fullBoard"} ELSE {}) \cup
  (IF t.ev = "RoundClosed" /\ g.ev # "RoundClosed" THEN {"C01.pots"} ELSE {}) \cup
  (IF ~Betting(g) /\ Betting(t) THEN {"C04.first"} ELSE {}) \cup
  (IF Betting(g) /\ Betting(t) /\ o.ok /\ t # g THEN {"C04.clockwise"} ELSE {}) \cup
  (IF Started(g) /\ MustRefuse(g, o) THEN {"C04.refused"} ELSE {}) \cup
  (IF Betting(g) /\ t.ev = "RoundClosed" /\ o.ok /\ Cardinality(Alive(t)) >= 2 THEN {"C05.notEarly"} ELSE {}) \cup
  (IF ~Betting(g) /\ g.ev # "RoundClosed" /\ t.ev = "RoundClosed" /\ o.ok /\ Cardinality(Alive(t)) >= 2 THEN {"C05.closedUnopened"} ELSE {}) \cup
  (IF Betting(g) /\ o.ok /\ Cardinality(Alive(t)) = 1 THEN {"C05.oneLeft"} ELSE {}) \cup
  (IF ~Betting(g) /\ Betting(t) /\ t.round # "preflop" THEN {"C05.noRoundWhenAllin"} ELSE {}) \cup
  (IF g.ev = "RoundClosed" /\ t.ev = "RoundClosed" /\ o.ok /\ t.round # g.round THEN {"C05.runout"} ELSE {}) \cup
  (IF o.op = "Start" THEN {"C06.start"} ELSE {}) \cup
  (IF Expected(g, o, h) THEN {"C06.succeeds"} ELSE {}) \cup
  (IF g.ev = "GameClosed" THEN {"C06.closedIsFinal"} ELSE {}) \cup
  (IF Acts(g, t, o) THEN {"C11.effect." \o o.op} ELSE {}) \cup
  (IF o.op = "Raise" /\ Betting(g) /\ CurOK(g) /\ o.seat = g.cur /\ Offered(g, "raise") /\ g.meta.limit = "no"
   THEN LET L == o.x  tm == ToMatch(g) IN
        (IF L < g.P[o.seat].init /\ L > tm /\ L - tm >= MinRaise(g, h) THEN {"C12.raise.full"} ELSE {}) \cup
        (IF L > tm /\ L - tm < MinRaise(g, h) THEN {"C12.raise.undersized"} ELSE {}) \cup
        (IF L < tm THEN {"C12.raise.below"} ELSE {})
   ELSE {}) \cup
  (IF o.op \in {"Bet", "Raise"} /\ o.x <= 0 THEN {"C12.nonpositiveAmount"} ELSE {}) \cup
  (IF BlindsBehind(g, t, o) THEN {"C13.blinds"} ELSE {}) \cup
  (IF o.op = "Start" /\ o.ok THEN {"C14.shuffle"} ELSE {})
=============================================================================

------------------------------ MODULE RegProps ------------------------------
(***************************************************************************)
(* What C09, C19 and C20 DEMAND of the regulator together with tables that  *)
(* follow its instructions.                                                 *)
(*   e, f : environment before / after the call                             *)
(*          [r       regulator bookkeeping (snapshot hook): status, pc, tc, *)
(*                   tables : id -> [count, required], queue,               *)
(*           member  id -> set of players sitting at table id,              *)
(*           pend    id -> number of players table id still has to release  *)
(*                   (the table has not yet carried out the instruction),   *)
(*           reg     set of registered players,  elim  eliminated players,  *)
(*           gone    ids of tables that were told to break and did]         *)
(*   o    : the call [op, id, out, players, err, release, handed, calls]    *)
(***************************************************************************)
EXTENDS Regulator

SeqSet(q) == {q[k] : k \in 1..Len(q)}
Live(e) == e.reg \ e.elim
AtTables(e) == UNION {e.member[t] : t \in DOMAIN e.member}
InQueue(e) == SeqSet(e.r.queue)
Pend(e, t) == IF t \in DOMAIN e.pend THEN e.pend[t] ELSE 0

(* ---------------------------------- C09 ---------------------------------- *)
\* every registered, not eliminated player is in exactly one place
C09_onePlace(f) ==
  /\ \A p \in Live(f) : (p \in InQueue(f)) # (p \in AtTables(f))
  /\ \A p \in Live(f) : Cardinality({t \in DOMAIN f.member : p \in f.member[t]}) <= 1
  /\ \A i, j \in 1..Len(f.r.queue) : i # j => f.r.queue[i] # f.r.queue[j]
  /\ (AtTables(f) \cup InQueue(f)) \subseteq Live(f)
\* the regulator's numbers equal the real ones wherever the instruction has been carried out
C09_counts(f) ==
  /\ f.r.pc = Cardinality(Live(f))
  /\ f.r.tc = Cardinality(DOMAIN f.r.tables)
  /\ DOMAIN f.r.tables = {t \in DOMAIN f.member : ~(t \in DOMAIN f.pend /\ t \notin DOMAIN f.r.tables)}
  /\ \A t \in DOMAIN f.r.tables : f.r.tables[t].count = Cardinality(f.member[t]) - Pend(f, t)
C09_refusals(e, f, o) ==
  /\ (o.op = "SyncState" /\ o.id \notin DOMAIN e.r.tables) => (o.err # "" /\ f = e)
  /\ (o.op = "AddPlayers" /\ e.r.status = AfterReg) => (o.err # "" /\ f = e)

(* ---------------------------------- C19 ---------------------------------- *)
C19_capacity(e, f, o) ==
  /\ \A k \in 1..Len(o.calls) : o.calls[k].kind = "request" => Len(o.calls[k].players) <= f.r.max
  /\ \A t \in DOMAIN f.member : Cardinality(f.member[t]) - Pend(f, t) <= f.r.max
C19_noEarlyTable(e, f, o) == \A k \in 1..Len(o.calls) : o.calls[k].kind = "request" =>
  /\ f.r.status # Pending
  /\ (e.r.tc = 0 => Cardinality(f.reg) >= f.r.min)      \* "registered", as the statement says (not: still alive)
\* every table opened by the allocation that starts from zero tables gets at least the minimum
C19_initialMin(e, f, o) == \A k \in 1..Len(o.calls) :
  (o.calls[k].kind = "request" /\ e.r.tc = 0) => Len(o.calls[k].players) >= f.r.min
C19_noCallbackWhilePending(e, f, o) == f.r.status = Pending => o.calls = <<>>

(* ---------------------------------- C20 ---------------------------------- *)
\* a table told to break hands back all of its players ...
Broke(e, f, o) == o.op = "SyncState" /\ o.err = "" /\ o.id \in DOMAIN e.r.tables /\ o.id \notin DOMAIN f.r.tables
C20_breakReleasesAll(e, f, o) == Broke(e, f, o) => o.release = Cardinality(f.member[o.id])
\* ... and each of them is queued for (or already seated at) another table; the broken id is not used again
C20_breakRequeues(e, f, o) == (o.op = "ReleasePlayers" /\ o.id \notin DOMAIN e.r.tables /\ o.id \in DOMAIN e.member) =>
  /\ o.id \notin DOMAIN f.member
  /\ \A p \in SeqSet(o.players) : p \in InQueue(f) \/ (\E t \in DOMAIN f.member : t # o.id /\ p \in f.member[t])
  /\ SeqSet(o.players) = e.member[o.id]
\* (not demanded by C20, and therefore not a verdict clause: the id of a broken table is not used again - it holds for the code's id scheme)
C20_idNotReused(e, f, o) == \A k \in 1..Len(o.calls) : o.calls[k].id \notin e.gone
\* a quiet sync: nothing to release, nothing received, not broken, no callback
QuietSync(e, f, o) == o.op = "SyncState" /\ o.err = "" /\ o.release = 0 /\ o.handed = <<>> /\ o.calls = <<>> /\ o.id \in DOMAIN f.r.tables
SettleBound == 8     \* sweeps; the bounded model needs at most 2, the real regulator at realistic sizes at most 3
\* s : settle history [active, sweep, quiet (current sweep quiet so far), synced (tables synced in this sweep)]
Settle0 == [active |-> FALSE, sweep |-> 0, quiet |-> TRUE, synced |-> {}]
SettleNext(s, e, f, o, ln) ==
  IF ln.settle = "begin" THEN [active |-> TRUE, sweep |-> 1, quiet |-> TRUE, synced |-> {}]
  ELSE IF ln.settle = "" \/ ~s.active THEN Settle0
  ELSE IF ln.settle = "sweep" THEN [s EXCEPT !.sweep = @ + 1, !.quiet = TRUE, !.synced = {}]
  ELSE [s EXCEPT !.quiet = @ /\ (o.op # "SyncState" \/ QuietSync(e, f, o)) /\ o.op \in {"SyncState", "nop"},
                 !.synced = IF o.op = "SyncState" THEN @ \cup {o.id} ELSE @]
\* the episode's verdict is taken at its end line: quiescence (a full sweep of quiet syncs over every live table) within the bound
C20_settles(s, e, ln) == (ln.settle = "end" /\ s.active) =>
  /\ s.quiet /\ s.synced = DOMAIN e.r.tables
  /\ s.sweep <= SettleBound
C20_noElimInSettle(s, o, ln) == (s.active /\ ln.settle \in {"step", "sweep"}) => (o.op \in {"SyncState", "ReleasePlayers", "nop"} /\ (o.op = "SyncState" => o.out = 0))

N(name, holds) == IF holds THEN {} ELSE {name}
FailedReg(s, e, f, o, ln, props) ==
  (IF "C09" \in props THEN N("C09.onePlace", C09_onePlace(f)) \cup N("C09.counts", C09_counts(f)) \cup N("C09.refusals", C09_refusals(e, f, o)) ELSE {}) \cup
  (IF "C19" \in props THEN N("C19.capacity", C19_capacity(e, f, o)) \cup N("C19.noEarlyTable", C19_noEarlyTable(e, f, o))
                           \cup N("C19.initialMin", C19_initialMin(e, f, o)) \cup N("C19.noCallbackWhilePending", C19_noCallbackWhilePending(e, f, o)) ELSE {}) \cup
  (IF "C20" \in props THEN N("C20.breakReleasesAll", C20_breakReleasesAll(e, f, o)) \cup N("C20.breakRequeues", C20_breakRequeues(e, f, o))
                           \cup N("C20.settles", C20_settles(s, e, ln))
                           \cup N("C20.settleProtocol", C20_noElimInSettle(s, o, ln)) ELSE {})
ExercisedReg(s, e, f, o, ln) ==
  {"op." \o o.op \o (IF o.err = "" THEN "" ELSE ".refused")} \cup
  (IF \E k \in 1..Len(o.calls) : o.calls[k].kind = "request" THEN {"C19.request"} ELSE {}) \cup
  (IF \E k \in 1..Len(o.calls) : o.calls[k].kind = "request" /\ e.r.tc = 0 THEN {"C19.initialAllocation"} ELSE {}) \cup
  (IF \E k \in 1..Len(o.calls) : o.calls[k].kind = "assign" THEN {"C19.assign"} ELSE {}) \cup
  (IF o.op = "SyncState" /\ o.err = "" /\ o.handed # <<>> THEN {"C09.syncHandsOut"} ELSE {}) \cup
  (IF o.op = "SyncState" /\ o.err = "" /\ o.release > 0 /\ ~Broke(e, f, o) THEN {"C09.syncReleases"} ELSE {}) \cup
  (IF Broke(e, f, o) THEN {"C20.break"} ELSE {}) \cup
  (IF o.op = "SyncState" /\ o.id \notin DOMAIN e.r.tables THEN {"C09.unknownTable"} ELSE {}) \cup
  (IF o.op = "SyncState" /\ o.id \notin DOMAIN e.r.tables /\ (o.id \in e.gone \/ o.id \in DOMAIN e.pend) THEN {"C09.brokenTableNamed"} ELSE {}) \cup
  (IF o.op = "SyncState" /\ o.id \notin DOMAIN e.r.tables /\ o.out > 0 THEN {"C09.unknownTableWithEliminations"} ELSE {}) \cup
  (IF o.op = "AddPlayers" /\ e.r.status = AfterReg THEN {"C09.afterDeadline"} ELSE {}) \cup
  (IF o.op = "ReleasePlayers" /\ o.id \notin DOMAIN e.member THEN {"C19.strayRelease"} ELSE {}) \cup
  (IF o.op = "ReleasePlayers" /\ o.id \notin DOMAIN e.member /\ e.r.status = Pending /\ Cardinality(e.reg) >= e.r.min THEN {"C19.strayReleaseWhilePending"} ELSE {}) \cup
  (IF ln.settle = "end" /\ s.active THEN {"C20.settleEpisode", "C20.settleSweeps" \o ToString(s.sweep)} ELSE {})
=============================================================================

------------------------------ MODULE MCViews ------------------------------
(***************************************************************************)
(* C15 on the model: at every reachable state of the hand model, the view   *)
(* operator View(g, who) - the precise model of AsPlayer / AsObserver -     *)
(* satisfies what C15 demands, for every seat and the observer; cards are   *)
(* the symbolic ids 1..D of the model's deck.                               *)
(***************************************************************************)
EXTENDS MCHoldem, ViewProps
CardsIn(v) ==
  LET seqs == <<v.meta.deck, v.burned, v.board>> \o [i \in 1..v.n |-> v.P[i - 1].hole]
              \o [i \in 1..v.n |-> IF v.P[i - 1].comb = NULL THEN <<>> ELSE v.P[i - 1].comb.cards]
      all == Cat(seqs)
  IN [k \in 1..Len(all) |-> [card |-> all[k]]]
ViewsOK == gs.ev # "" => \A who \in Seats(gs) \cup {-1} :
  LET v == View(gs, who) IN FailedView(gs, v, who, CardsIn(v)) = {}
=============================================================================

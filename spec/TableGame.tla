----------------------------- MODULE TableGame -----------------------------
(***************************************************************************)
(* Precise model of table/game.go: one hand driven through the table layer. *)
(* The table game keeps a CLONE of the engine state, adds its own           *)
(* allowances to it at the engine's wait points ("ready" for everybody at   *)
(* ReadyRequested, "pay" for everybody at AnteRequested and for the blind   *)
(* holders at BlindsRequested), collects the players' Ready / Pay calls in  *)
(* a ready group and - when the group is complete - performs the engine     *)
(* operation (ReadyForAll / PayAnte / PayBlinds) through the stateless      *)
(* backend; it moves on from RoundClosed by itself (backend.Next) and       *)
(* closes at GameClosed.  Every call goes through the backend, i.e. through *)
(* a game rebuilt from the JSON state (C07).                                *)
(*   tg = [g      the table game's copy of the engine state,                *)
(*         kind   "" | "ready" | "ante" | "blinds"  what the group waits for *)
(*         part, done   participants of the ready group / those who did     *)
(*         closed]                                                          *)
(* Operations return [ok, err, tg]; Deliver is handleState (the state       *)
(* updater goroutine), applied until the game rests at a wait point.        *)
(***************************************************************************)
EXTENDS Holdem

InSeq(q, a) == \E k \in 1..Len(q) : q[k] = a
AddAllow(g, S, a) ==       \* PlayerState.AllowAction: append unless present
  [g EXCEPT !.P = [i \in Seats(g) |-> IF i \in S /\ ~InSeq(g.P[i].allowed, a)
                                      THEN [g.P[i] EXCEPT !.allowed = Append(@, a)] ELSE g.P[i]]]
BlindHolders(g) == {i \in Seats(g) : \/ g.meta.bb > 0 /\ Has(g, i, "bb")
                                     \/ g.meta.sb > 0 /\ Has(g, i, "sb") /\ ~(g.meta.bb > 0 /\ Has(g, i, "bb"))
                                     \/ g.meta.dealerBlind > 0 /\ Has(g, i, "dealer")
                                        /\ ~(g.meta.bb > 0 /\ Has(g, i, "bb")) /\ ~(g.meta.sb > 0 /\ Has(g, i, "sb"))}
Rest(tg, g, kind, part) == [tg EXCEPT !.g = g, !.kind = kind, !.part = part, !.done = {}]

RECURSIVE Deliver(_, _, _)
Deliver(tg, gs, pw) ==
  CASE gs.ev = "GameClosed" -> [Rest(tg, gs, "", {}) EXCEPT !.closed = TRUE]
    [] gs.ev = "RoundClosed" -> Deliver(tg, OpNext(gs, pw).g, pw)                       \* next round automatically
    [] gs.ev = "ReadyRequested" -> Rest(tg, AddAllow(gs, Seats(gs), "ready"), "ready", Seats(gs))
    [] gs.ev = "AnteRequested" -> Rest(tg, AddAllow(gs, Seats(gs), "pay"), "ante", Seats(gs))
    [] gs.ev = "BlindsRequested" -> Rest(tg, AddAllow(gs, BlindHolders(gs), "pay"), "blinds", BlindHolders(gs))
    [] OTHER -> Rest(tg, gs, "", {})

TOK(tg) == [ok |-> TRUE, err |-> "", tg |-> tg]
TNO(tg, e) == [ok |-> FALSE, err |-> e, tg |-> tg]
NewTG == [g |-> NULL, kind |-> "", part |-> {}, done |-> {}, closed |-> FALSE]

\* Start: backend.CreateGame = NewGame + Start
TGStart(cfg, pw) ==
  LET r == OpStart(NewGame(cfg), pw) IN IF r.ok THEN TOK(Deliver(NewTG, r.g, pw)) ELSE TNO(NewTG, "start")
\* the group is complete: perform the engine operation it was waiting for
Complete(tg, pw) ==
  LET r == CASE tg.kind = "ready" -> OpReadyForAll(tg.g, pw)
             [] tg.kind = "ante" -> OpPayAnte(tg.g, pw)
             [] tg.kind = "blinds" -> OpPayBlinds(tg.g, pw)
  IN IF r.ok THEN Deliver(tg, r.g, pw) ELSE tg
TGReady(tg, i, pw) ==
  IF tg.g = NULL THEN TNO(tg, "ErrNoRunningGame")
  ELSE IF i \notin Seats(tg.g) THEN TNO(tg, "ErrPlayerNotInGame")
  ELSE IF ~HasAction(tg.g, i, "ready") THEN TNO(tg, "ErrInvalidAction")
  ELSE LET t1 == [tg EXCEPT !.done = @ \cup {i}] IN
       TOK(IF t1.done = t1.part /\ tg.done # tg.part THEN Complete(t1, pw) ELSE t1)
TGPay(tg, i, pw) ==
  IF tg.g = NULL THEN TNO(tg, "ErrNoRunningGame")
  ELSE IF i \notin Seats(tg.g) THEN TNO(tg, "ErrPlayerNotInGame")
  ELSE IF ~HasAction(tg.g, i, "pay") THEN TNO(tg, "ErrInvalidAction")
  ELSE LET t1 == [tg EXCEPT !.done = @ \cup {i}] IN
       TOK(IF t1.done = t1.part /\ tg.done # tg.part THEN Complete(t1, pw) ELSE t1)
\* an action of a player: allowed in the table's copy, then performed by the backend for the player to act
TGAction(tg, i, name, x, pw) ==
  IF tg.g = NULL THEN TNO(tg, "ErrNoRunningGame")
  ELSE IF i \notin Seats(tg.g) THEN TNO(tg, "ErrPlayerNotInGame")
  ELSE LET a == CASE name = "Fold" -> "fold" [] name = "Check" -> "check" [] name = "Call" -> "call" [] name = "Allin" -> "allin"
                  [] name = "Pass" -> "pass" [] name = "Bet" -> "bet" [] name = "Raise" -> "raise" [] OTHER -> "?"
       IN IF ~HasAction(tg.g, i, a) THEN TNO(tg, "ErrInvalidAction")
          ELSE LET c == tg.g.cur
                   r == CASE name = "Fold" -> OpFold(tg.g, c, pw) [] name = "Check" -> OpCheck(tg.g, c, pw)
                          [] name = "Call" -> OpCall(tg.g, c, pw) [] name = "Allin" -> OpAllin(tg.g, c, pw)
                          [] name = "Pass" -> OpPass(tg.g, c, pw) [] name = "Bet" -> OpBet(tg.g, c, x, pw)
                          [] name = "Raise" -> OpRaise(tg.g, c, x, pw)
               IN IF r.ok THEN TOK(Deliver(tg, r.g, pw)) ELSE TNO(tg, "engine")
=============================================================================

------------------------------ MODULE RegTrace ------------------------------
(***************************************************************************)
(* Trace validation for regulator.Regulator: one NDJSON line per public     *)
(* call on the real regulator (recording request/assign callbacks), with    *)
(* the regulator's bookkeeping (snapshot hook) and the environment of       *)
(* tables that follow its instructions after the call.                      *)
(* Property layer RegProps (C09, C19, C20); conformance layer Regulator.    *)
(* line kinds: reset (new tournament / fork by replay) | main               *)
(* `settle` marks the lines of a settle episode (C20): begin|step|sweep|end *)
(***************************************************************************)
EXTENDS RegProps, Json
CONSTANTS TraceFile, Props, MaxViol
VARIABLES l, e, s, viol, drift, cnt
Trace == ndJsonDeserialize(TraceFile)

ToE(ln) ==
  LET st == ln.state IN
  [r |-> [max |-> st.max, min |-> st.min, status |-> st.status, pc |-> st.pc, tc |-> st.tc,
          tables |-> [t \in {st.tables[k].id : k \in 1..Len(st.tables)} |->
                        LET k == CHOOSE k \in 1..Len(st.tables) : st.tables[k].id = t
                        IN [count |-> st.tables[k].count, required |-> st.tables[k].required]],
          queue |-> st.queue, nextId |-> ln.nextId],
   member |-> [t \in {ln.member[k].id : k \in 1..Len(ln.member)} |->
                 LET k == CHOOSE k \in 1..Len(ln.member) : ln.member[k].id = t IN SeqSet(ln.member[k].players)],
   pend |-> [t \in {ln.pend[k].id : k \in 1..Len(ln.pend)} |->
               LET k == CHOOSE k \in 1..Len(ln.pend) : ln.pend[k].id = t IN ln.pend[k].n],
   reg |-> 1..ln.nreg, elim |-> SeqSet(ln.elim), gone |-> SeqSet(ln.gone)]
Call(ln) == [op |-> ln.op, id |-> ln.id, out |-> ln.out, players |-> ln.players, err |-> ln.err,
             release |-> ln.release, handed |-> ln.handed, calls |-> ln.calls]

Outcomes(g, o) ==
  CASE o.op = "AddPlayers" -> OpAddPlayers(g, o.players, [any |-> FALSE, calls |-> o.calls])
    [] o.op = "SetStatus" -> OpSetStatus(g, o.out, [any |-> FALSE, calls |-> o.calls])
    [] o.op = "ReleasePlayers" -> OpRelease(g, o.players, [any |-> FALSE, calls |-> o.calls])
    [] o.op = "SyncState" -> OpSync(g, o.id, o.out)
    [] OTHER -> {[r |-> g, calls |-> <<>>, ret |-> [err |-> "", release |-> 0, players |-> <<>>]]}
StepOK(g, o, t) ==
  \E x \in Outcomes(g, o) :
     /\ x.r = t
     /\ x.calls = o.calls
     /\ (x.ret.err = "") <=> (o.err = "")
     /\ o.op = "SyncState" => (x.ret.release = o.release /\ x.ret.players = o.handed)

Bump(c, S) == [k \in (DOMAIN c) \cup S |-> (IF k \in DOMAIN c THEN c[k] ELSE 0) + (IF k \in S THEN 1 ELSE 0)]
AddViol(v, line, names) == v \cup {<<line, nm>> : nm \in {x \in names : Cardinality({w \in v : w[2] = x}) < MaxViol}}   \* at most MaxViol entries PER CLAUSE: a flood of one clause (a known finding) never hides another
Init == l = 1 /\ e = ToE(Trace[1]) /\ s = Settle0 /\ viol = {} /\ drift = {} /\ cnt = [k \in {} |-> 0]
Step ==
  /\ l < Len(Trace) /\ l' = l + 1
  /\ LET ln == Trace[l + 1]
         f == ToE(ln)
         o == Call(ln)
     IN IF ln.kind = "reset"
        THEN /\ e' = f /\ s' = SettleNext(s, f, f, o, ln) /\ viol' = viol /\ drift' = drift /\ cnt' = Bump(cnt, {"runs"})
        ELSE /\ e' = f /\ s' = SettleNext(s, e, f, o, ln)
             /\ viol' = AddViol(viol, l + 1, FailedReg(s, e, f, o, ln, Props))
             /\ drift' = IF o.op = "nop" \/ StepOK(e.r, o, f.r) \/ Cardinality(drift) >= MaxViol THEN drift ELSE drift \cup {l + 1}
             /\ cnt' = Bump(cnt, ExercisedReg(s, e, f, o, ln))
  /\ (l + 1 = Len(Trace)) =>
        PrintT(<<"RESULT", ToJson([lines |-> Len(Trace), viol |-> viol', drift |-> drift', cnt |-> cnt'])>>)
Spec == Init /\ [][Step]_<<l, e, s, viol, drift, cnt>>
=============================================================================

----------------------------- MODULE ViewProps -----------------------------
(***************************************************************************)
(* C15 - the state prepared for a player or an observer (game_state.go:     *)
(* AsPlayer / AsObserver).                                                  *)
(*   View(g, who)      : precise model of what the code does (who = -1 is   *)
(*                       the observer)                                      *)
(*   FailedView(g, v, who, found) : what C15 demands of a view v of g;      *)
(*                       found = every card symbol found anywhere in the    *)
(*                       JSON of the view (generic leak scan of the driver) *)
(***************************************************************************)
EXTENDS HoldemProps

Closed(g) == g.ev = "GameClosed"
Hidden(g, who, p) == p # who /\ (~Closed(g) \/ g.P[p].fold)
View(g, who) ==
  [g EXCEPT !.meta.deck = <<>>, !.burned = <<>>,
            !.P = [p \in Seats(g) |-> IF Hidden(g, who, p) THEN [g.P[p] EXCEPT !.hole = <<>>, !.comb = NULL] ELSE g.P[p]]]

CombCards(pl) == IF pl.comb = NULL THEN {} ELSE ToSet(pl.comb.cards)
\* what the viewer may see: the board, his own cards, and after the close the cards of those who did not fold
PublicCards(g, who) ==
  ToSet(g.board) \cup (IF who \in Seats(g) THEN ToSet(g.P[who].hole) \cup CombCards(g.P[who]) ELSE {})
  \cup (IF Closed(g) THEN UNION {ToSet(g.P[p].hole) \cup CombCards(g.P[p]) : p \in {q \in Seats(g) : ~g.P[q].fold}} ELSE {})
Public(pl) == [pl EXCEPT !.hole = <<>>, !.comb = NULL]
FailedView(g, v, who, found) ==
  (IF v.meta.deck = <<>> /\ v.burned = <<>> THEN {} ELSE {"C15.deckAndBurnedHidden"}) \cup
  (IF v.n = g.n /\ \A p \in Seats(g) : Hidden(g, who, p) => (v.P[p].hole = <<>> /\ v.P[p].comb = NULL) THEN {} ELSE {"C15.othersHidden"}) \cup
  (IF v.n = g.n /\ \A p \in Seats(g) : IF Hidden(g, who, p) THEN Public(v.P[p]) = Public(g.P[p]) ELSE v.P[p] = g.P[p]
   THEN {} ELSE {"C15.ownAndPublicPlayerInfoUnchanged"}) \cup
  (IF [v EXCEPT !.meta.deck = <<>>, !.burned = <<>>, !.P = <<>>] = [g EXCEPT !.meta.deck = <<>>, !.burned = <<>>, !.P = <<>>]
   THEN {} ELSE {"C15.publicInfoUnchanged"}) \cup
  (IF \A k \in 1..Len(found) : found[k].card \in PublicCards(g, who) THEN {} ELSE {"C15.noHiddenCardAnywhere"})
=============================================================================

------------------------------ MODULE MCTable ------------------------------
(***************************************************************************)
(* Model checking of the HAND LOOP (Table.tla) over the precise hand model: *)
(* players join / sit in / sit out / leave at any rest point, the table     *)
(* runs hand after hand (seat manager -> positions -> game -> settlement -> *)
(* bankrolls), the players ready, pay and fold / check / call / go all-in,  *)
(* and every weak order of hand strengths is possible at a showdown.        *)
(* Small scope (MaxSeats seats, bankrolls of Banks, MaxGames hands, at most *)
(* MaxJoins players and MaxOps seating changes), exhaustive or -simulate.   *)
(*                                                                          *)
(* ENVIRONMENT switches - what the table's caller may do:                   *)
(*   BrokeMayReturn : a player with no chips sits in again (Activate)       *)
(*   LeaveMidHand   : a player who is dealt in leaves during the hand       *)
(* With both FALSE (what the drivers do) the invariants below hold; with    *)
(* one of them TRUE TLC shows how the table then misbehaves (DESIGN 13).    *)
(***************************************************************************)
EXTENDS Table
CONSTANTS MaxSeats, Banks, MaxGames, Elim, Joinable, Blinds, MaxJoins, MaxOps, S, BrokeMayReturn, LeaveMidHand
VARIABLES tb, nid, ops, brought, gone, refusedStart
vars == <<tb, nid, ops, brought, gone, refusedStart>>

\* <<ante, dealer blind, sb, bb>> (cfg files cannot hold tuples)
BlindsBasic == <<0, 0, 1, 2>>
BlindsAnte == <<1, 0, 1, 2>>
Opt == [maxSeats |-> MaxSeats, maxGames |-> MaxGames, initial |-> 2, min |-> 2, joinable |-> Joinable, elim |-> Elim,
        ante |-> Blinds[1], dealerBlind |-> Blinds[2], sb |-> Blinds[3], bb |-> Blinds[4]]
Meta == [ante |-> 0, dealerBlind |-> 0, sb |-> 0, bb |-> 0, limit |-> "no", holeN |-> 2, reqHole |-> 0, ranking |-> "standard",
         deck |-> [k \in 1..(2 * MaxSeats + 8) |-> k]]
Pw(f) == [i \in 0..(MaxSeats - 1) |-> [type |-> "", cards |-> <<>>, power |-> f[i]]]
O(f) == [meta |-> Meta, pw |-> Pw(f), pwNew |-> Pw(f)]
Ones == [i \in 0..(MaxSeats - 1) |-> 1]
\* hand strengths matter when a showdown can happen during the call
Strengths == IF tb.tg.g # NULL /\ ~tb.tg.closed /\ (tb.tg.g.round \in {"turn", "river"} \/ Cardinality(Movable(tb.tg.g)) < 2)
             THEN [0..(MaxSeats - 1) -> 1..S] ELSE {Ones}

Sum(f) == LET RECURSIVE Acc(_) Acc(D) == IF D = {} THEN 0 ELSE LET x == CHOOSE x \in D : TRUE IN f[x] + Acc(D \ {x}) IN Acc(DOMAIN f)
Bank(t) == Sum([s \in DOMAIN t.pl |-> t.pl[s].bank])
InHand(t, s) == t.hasG /\ ~t.tg.closed /\ t.pl[s].gidx # -1
EngineRefused(t0, t1) == t1.running /\ t1.status = "pending" /\ t1.tg = NewTG /\ ~t1.hasG

Init == tb = NewTable(Opt) /\ nid = 1 /\ ops = 0 /\ brought = 0 /\ gone = 0 /\ refusedStart = FALSE
Do(r) == /\ r.res = "" /\ r.tb # tb /\ tb' = r.tb
         /\ refusedStart' = (refusedStart \/ EngineRefused(tb, r.tb))
Join == \E s \in 0..(MaxSeats - 1), b \in Banks :
          /\ nid <= MaxJoins /\ Do(TbJoin(tb, s, nid, b)) /\ nid' = nid + 1 /\ brought' = brought + b /\ UNCHANGED <<ops, gone>>
Seating == /\ ops < MaxOps /\ ops' = ops + 1 /\ UNCHANGED <<nid, brought>>
           /\ \E s \in DOMAIN tb.pl :
                \/ /\ (BrokeMayReturn \/ tb.pl[s].bank > 0) /\ Do(TbActivate(tb, s, O(Ones))) /\ gone' = gone
                \/ Do(TbReserve(tb, s)) /\ gone' = gone
                \/ /\ (LeaveMidHand \/ ~InHand(tb, s)) /\ Do(TbLeave(tb, s)) /\ gone' = gone + tb.pl[s].bank
Start == Do(TbStart(tb, O(Ones))) /\ UNCHANGED <<nid, ops, brought, gone>>
\* the next blind level (once): the options change at once, the next hand is played with them
Level == /\ ops < MaxOps /\ ops' = ops + 1 /\ tb.opt.bb = Blinds[4] /\ tb.running
         /\ Do(TbSetBlinds(tb, tb.opt.dealerBlind, tb.opt.sb + 1, tb.opt.bb + 1)) /\ UNCHANGED <<nid, brought, gone>>
\* in eliminate mode "leave" a busted player is removed by the table: his (zero) bankroll leaves with him
Play == /\ UNCHANGED <<nid, ops, brought, gone>>
        /\ \E s \in DOMAIN tb.pl, f \in Strengths :
             LET id == tb.pl[s].id IN
             \/ Do(TbReady(tb, id, O(f)))
             \/ Do(TbPay(tb, id, O(f)))
             \/ \E a \in {"Fold", "Check", "Call", "Allin", "Pass"} : Do(TbAction(tb, id, a, 0, O(f)))
Next == Join \/ Seating \/ Start \/ Level \/ Play
Spec == Init /\ [][Next]_vars

(* ---- what holds at every rest point ---- *)
IdxOK == IdxConsistent(tb)
PositionsOK == PositionsHandedOn(tb)
\* the table neither creates nor loses chips: what the seated players hold is what was brought in minus what left
\* (between two hands; during a hand the bankrolls shown are those from before the hand)
ChipsOK == Bank(tb) + gone = brought
CountOK == MaxGames > 0 => tb.count <= MaxGames
\* a running hand has a dealer and - with a big blind configured - somebody to post it
HandHasPositions ==
  (tb.hasG /\ ~tb.tg.closed) =>
     /\ \E i \in Seats(tb.tg.g) : Has(tb.tg.g, i, "dealer")
     /\ \E i \in Seats(tb.tg.g) : Has(tb.tg.g, i, "bb")
     /\ tb.tg.g.n >= 2
\* a hand keeps the blinds it was started with; a new level shows in the next hand at the latest
BlindsOK == (tb.hasG /\ ~tb.tg.closed) => tb.tg.g.meta.bb \in {Blinds[4], tb.opt.bb}
\* the table never asks the engine for a game the engine refuses (the Go loop would then retry without end)
StartNeverRefused == ~refusedStart
\* nobody is dealt in without chips, and only players the seat manager counts as able to play are dealt in
DealtInOK ==
  (tb.hasG /\ ~tb.tg.closed /\ tb.tg.g.ev = "ReadyRequested" /\ tb.tg.g.round = "") =>
     \A s \in DOMAIN tb.pl : tb.pl[s].gidx # -1 => (tb.pl[s].bank > 0 /\ tb.pl[s].playable)
ClosedIsFinal == [][tb.status = "closed" => (tb'.status = "closed" /\ tb'.count = tb.count /\ tb'.tg = tb.tg)]_vars
View == <<tb, nid, ops, brought - gone, refusedStart>>
=============================================================================

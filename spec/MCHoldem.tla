------------------------------ MODULE MCHoldem ------------------------------
(***************************************************************************)
(* Exhaustive model checking of the precise hand model (Holdem) against the *)
(* property layer (HoldemProps) in a small scope: every configuration over  *)
(* NSet x BankSet x Structs x dealer seat x live/dead small blind x Limits, *)
(* every operation by EVERY seat (not only the one to act) with every       *)
(* amount in AmtLo..AmtHi (negative and oversized included), every weak     *)
(* order of hand strengths at the river.                                    *)
(***************************************************************************)
EXTENDS HoldemProps
CONSTANTS NSet, BankSet, Structs, Limits, AmtLo, AmtHi, S, Props, TrackHist,
          RecordOut   \* FALSE: `out` keeps only the ok flag (liveness configuration: no VIEW allowed there)
VARIABLES gs, out, h
vars == <<gs, out, h>>

RolePos(n, d, dead) ==
  IF n = 2 THEN [k \in 1..2 |-> IF k - 1 = d THEN {"dealer", "sb"} ELSE {"bb"}]
  ELSE [k \in 1..n |-> IF k - 1 = d THEN {"dealer"}
                       ELSE IF k - 1 = (d + 1) % n THEN (IF dead THEN {} ELSE {"sb"})
                       ELSE IF k - 1 = (d + 2) % n THEN {"bb"} ELSE {}]
Configs ==
  { [bank |-> b, pos |-> RolePos(Len(b), d, dead),
     meta |-> [ante |-> st[1], dealerBlind |-> st[2], sb |-> st[3], bb |-> st[4], limit |-> lim,
               holeN |-> 2, reqHole |-> 0, ranking |-> "standard",
               deck |-> [k \in 1..(2 * Len(b) + 8) |-> k]]] :
       b \in UNION {[1..m -> BankSet] : m \in NSet}, d \in 0..3, dead \in BOOLEAN, st \in Structs, lim \in Limits }
GoodConfigs == { c \in Configs : (\E k \in 1..Len(c.bank) : "dealer" \in c.pos[k]) /\ (Len(c.bank) = 2 => \E k \in 1..2 : "sb" \in c.pos[k]) }

\* blind structures <<ante, dealer blind, sb, bb>> (cfg files cannot hold tuples)
StructsBasic == {<<0,0,1,2>>}
StructsQuick == {<<0,0,1,2>>, <<1,0,1,2>>}
StructsFull  == {<<0,0,1,2>>, <<1,0,1,2>>, <<1,2,0,0>>, <<2,0,1,2>>}
StructsBBOnly == {<<0,0,0,2>>}          \* known finding F6 lives here
MinusOne == -1

Blank(g) == [i \in Seats(g) |-> NoComb]
Pw(g, f) == [i \in Seats(g) |-> [type |-> "", cards |-> <<>>, power |-> f[i]]]
Ones(g) == Pw(g, [i \in Seats(g) |-> 1])

Init == /\ \E c \in GoodConfigs : gs = NewGame(c)
        /\ out = [op |-> "new", seat |-> -1, x |-> 0, ok |-> TRUE]
        /\ h = IF TrackHist THEN Hist0 ELSE [Hist0 EXCEPT !.valid = FALSE]

Do(name, i, x, r) ==
  /\ gs' = r.g
  /\ out' = IF RecordOut THEN [op |-> name, seat |-> i, x |-> x, ok |-> r.ok] ELSE [op |-> "-", seat |-> -1, x |-> 0, ok |-> r.ok]
  /\ h' = IF TrackHist THEN HistNext(h, gs, r.g, [op |-> name, seat |-> i, x |-> x, ok |-> r.ok]) ELSE h
Amts == AmtLo..AmtHi
Next ==
  \/ gs.ev = "" /\ Do("Start", -1, 0, OpStart(gs, Ones(gs)))
  \/ Do("ReadyForAll", -1, 0, OpReadyForAll(gs, Ones(gs)))
  \/ Do("PayAnte", -1, 0, OpPayAnte(gs, Ones(gs)))
  \/ Do("PayBlinds", -1, 0, OpPayBlinds(gs, Ones(gs)))
  \/ \E i \in Seats(gs) :
        \/ Do("Fold", i, 0, OpFold(gs, i, Ones(gs)))
        \/ Do("Check", i, 0, OpCheck(gs, i, Ones(gs)))
        \/ Do("Call", i, 0, OpCall(gs, i, Ones(gs)))
        \/ Do("Allin", i, 0, OpAllin(gs, i, Ones(gs)))
        \/ Do("Pass", i, 0, OpPass(gs, i, Ones(gs)))
        \/ \E x \in Amts : Do("Bet", i, x, OpBet(gs, i, x, Ones(gs))) \/ Do("Raise", i, x, OpRaise(gs, i, x, Ones(gs)))
  \* C07: the game is serialized and rebuilt between any two operations - a stuttering step on gs
  \/ gs.ev # "" /\ Do("Rehydrate", -1, 0, OK(gs))
  \/ IF gs.round = "turn"
     THEN \E f \in [Seats(gs) -> 1..S] : (\A i \in Seats(gs) : gs.P[i].fold => f[i] = 1) /\ Do("Next", -1, 0, OpNext(gs, Pw(gs, f)))
     ELSE Do("Next", -1, 0, OpNext(gs, Ones(gs)))
Spec == Init /\ [][Next]_vars

\* accepted, state-changing steps only: for liveness (C06: every path of accepted operations is finite)
Accepted == Next /\ out'.ok /\ gs' # gs
LiveSpec == Init /\ [][Next]_vars /\ WF_vars(Accepted)
\* C06: whatever the players choose, a started hand reaches GameClosed (no cycle of accepted
\* operations, no stuck wait point); a configuration the engine does not accept never starts
Terminates == (gs.ev = "" /\ ~StartAllowed(gs)) \/ <>(gs.ev = "GameClosed")
\* Start is refused in configurations the engine does not accept: there the hand never starts
StartsOrRefused == []<>(gs.ev # "" \/ ~StartAllowed(gs))

\* comparison view (DESIGN 3.2): no last action, did, vpip, evaluations, result amounts
CmpView == <<[gs EXCEPT !.last = NULL, !.result = (gs.result # NULL),
                        !.P = [i \in Seats(gs) |-> [gs.P[i] EXCEPT !.did = "", !.vpip = FALSE, !.comb = NoComb]]], h>>
PropView == <<[gs EXCEPT !.last = NULL, !.P = [i \in Seats(gs) |-> [gs.P[i] EXCEPT !.did = "", !.vpip = FALSE]]], h>>

StateOK == FailedState(gs, h, Props) = {}
\* what PayProof.tla assumes of a state is true of every reachable one: the record structure and the chip identity
StructOK == Struct(gs) /\ ChipIdentity(gs)
StepOK == [][out'.op # "new" => FailedStep(gs, gs', out', h, h', Props) = {}]_vars
=============================================================================

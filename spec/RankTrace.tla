----------------------------- MODULE RankTrace -----------------------------
(***************************************************************************)
(* C03 - the function table of the REAL evaluator as a trace.               *)
(* The Go driver (rank-table) runs combination.CalculatePower on ALL        *)
(* 2,598,960 hands of the 52-card deck and all 376,992 of the 36-card deck, *)
(* under both ranking tables, in several card orders, and reduces them to   *)
(* classes (rank multiset, flush?): one line per class with EVERY distinct  *)
(* (category, score) any member hand produced, sorted by score per          *)
(* (deck, table) group.  TLC checks, with the reference order of            *)
(* HandRank.tla:                                                            *)
(*   - a class has exactly one result and the right category name          *)
(*   - along the sorted table: score(a) <= score(b),                        *)
(*     score(a) = score(b) <=> RefKey(a) = RefKey(b),                       *)
(*     score(a) < score(b)  => RefKey(a) < RefKey(b)                        *)
(* which by transitivity is order-isomorphism on all pairs of all hands.    *)
(* A group may be split over several files: the first line of a chunk then  *)
(* repeats the last line of the previous one (`carry` = TRUE).              *)
(***************************************************************************)
EXTENDS HandRank, Json
CONSTANTS TraceFile, Props, MaxViol
VARIABLES l, prev, viol, drift, cnt
Trace == ndJsonDeserialize(TraceFile)
NULL == <<>>

Hand(ln) == ClassHand(ln.ranks, ln.flush)
Tbl(ln) == IF ln.table = "short" THEN "short" ELSE "standard"
\* left open by the property ("how a short-deck A-6-7-8-9 is classed is not fixed"): whenever the deck or the
\* ranking table is the short-deck one (a 52-card deck under the short-deck table is a legal, mixed configuration)
Open(ln) == (ln.deck = "36" \/ ln.table = "short") /\ ShortWheel(Hand(ln))
SameGroup(a, b) == a.deck = b.deck /\ a.table = b.table

LineBad(ln) ==
  (IF Len(ln.results) = 1 THEN {} ELSE {"C03.oneResultPerClass"}) \cup
  (IF Open(ln) \/ \A k \in 1..Len(ln.results) : ln.results[k][1] = CatName(RefCat(Hand(ln))) THEN {} ELSE {"C03.category"})
PairBad(a, b) ==
  LET sa == a.results[1][2]  sb == b.results[1][2]
      ka == RefKey(Hand(a), Tbl(a))  kb == RefKey(Hand(b), Tbl(b)) IN
  (IF sa <= sb THEN {} ELSE {"C03.sorted"}) \cup
  (IF (sa = sb) <=> (ka = kb) THEN {} ELSE {"C03.tieIffEqual"}) \cup
  (IF (sa < sb) => LexLess(ka, kb) THEN {} ELSE {"C03.order"})
\* conformance: the code's score is the model's Score
LineDrift(ln) == ~Open(ln) /\ \E k \in 1..Len(ln.results) : ln.results[k][2] # Score(Hand(ln), Tbl(ln))

Bump(cc, T) == [k \in (DOMAIN cc) \cup T |-> (IF k \in DOMAIN cc THEN cc[k] ELSE 0) + (IF k \in T THEN 1 ELSE 0)]
Init == l = 0 /\ prev = NULL /\ viol = {} /\ drift = {} /\ cnt = [k \in {} |-> 0]
Step ==
  /\ l < Len(Trace) /\ l' = l + 1
  /\ LET ln == Trace[l + 1]
         fresh == ~ln.carry
         bad == (IF fresh THEN LineBad(ln) ELSE {}) \cup
                (IF prev # NULL /\ SameGroup(prev, ln) /\ ~Open(ln) /\ Len(ln.results) >= 1 /\ Len(prev.results) >= 1
                 THEN PairBad(prev, ln) ELSE {})
     IN /\ viol' = viol \cup {<<l + 1, nm>> : nm \in {x \in bad : Cardinality({w \in viol : w[2] = x}) < MaxViol}}
        /\ drift' = IF fresh /\ LineDrift(ln) /\ Cardinality(drift) < MaxViol THEN drift \cup {l + 1} ELSE drift
        /\ prev' = IF Open(ln) THEN prev ELSE ln
        /\ cnt' = Bump(cnt, (IF fresh THEN {"classes." \o ln.deck \o "." \o ln.table, "cat." \o CatName(RefCat(Hand(ln)))} ELSE {})
                            \cup (IF prev # NULL /\ SameGroup(prev, ln) THEN {"pairs"} ELSE {}))
  /\ (l + 1 = Len(Trace)) =>
        PrintT(<<"RESULT", ToJson([lines |-> Len(Trace), viol |-> viol', drift |-> drift', cnt |-> cnt'])>>)
Spec == Init /\ [][Step]_<<l, prev, viol, drift, cnt>>
=============================================================================

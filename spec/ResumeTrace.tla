---------------------------- MODULE ResumeTrace ----------------------------
(***************************************************************************)
(* C07 - a hand can be resumed from its serialized state at any wait point. *)
(* Each line: one operation applied in lock-step to                         *)
(*   M  an in-memory game          M2 a second in-memory run (determinism)  *)
(*   J  a game rebuilt from its own JSON before every call / at cut points  *)
(*   B  table.NativeBackend (a game from the state for every single call)   *)
(* with their projected states after the call, the errors, and the flags    *)
(* the driver computed on the complete JSON (rawEq*: equal up to            *)
(* timestamps and game id; inputSame: the backend left its input as it was) *)
(* The conformance layer checks M against the precise model Holdem, where   *)
(* re-hydration is a stuttering step.                                       *)
(***************************************************************************)
EXTENDS HoldemJson
CONSTANTS TraceFile, Props, MaxViol
VARIABLES l, gs, viol, drift, cnt
Trace == ndJsonDeserialize(TraceFile)
N2(name, holds) == IF holds THEN {} ELSE {name}
SameErr(a, b) == (a = "") <=> (b = "")     \* accepted by both or refused by both (the wording of an error may differ)
Bad(ln) ==
  LET m == ToGs(ln.M, ln.deckM)  m2 == ToGs(ln.M2, ln.deckM)  j == ToGs(ln.J, ln.deckJ)  b == ToGs(ln.B, ln.deckB) IN
  N2("C07.rehydratedEqualsInMemory", j = m /\ ln.rawEqMJ) \cup
  N2("C07.backendEqualsInMemory", ~ln.hasB \/ (b = m /\ ln.rawEqMB)) \cup
  N2("C07.sameErrors", SameErr(ln.errM, ln.errJ) /\ (ln.hasB => SameErr(ln.errM, ln.errB))) \cup
  N2("C07.backendLeavesInputAlone", ln.inputSame) \cup
  N2("C07.deterministic", m2 = m /\ ln.rawEqMM2 /\ SameErr(ln.errM, ln.errM2))
AsLine(ln) == [op |-> ln.op, seat |-> ln.seat, x |-> ln.x, err |-> ln.errM]
Bump(cc, T) == [k \in (DOMAIN cc) \cup T |-> (IF k \in DOMAIN cc THEN cc[k] ELSE 0) + (IF k \in T THEN 1 ELSE 0)]
Init == l = 1 /\ gs = ToGs(Trace[1].M, Trace[1].deckM) /\ viol = {} /\ drift = {} /\ cnt = [k \in {} |-> 0]
Step ==
  /\ l < Len(Trace) /\ l' = l + 1
  /\ LET ln == Trace[l + 1]
         t == ToGs(ln.M, ln.deckM)
     IN /\ gs' = t
        /\ viol' = viol \cup {<<l + 1, nm>> : nm \in {x \in (IF "C07" \in Props THEN Bad(ln) ELSE {}) : Cardinality({w \in viol : w[2] = x}) < MaxViol}}
        /\ drift' = IF ln.kind = "reset" \/ StepOK(gs, AsLine(ln), t) \/ Cardinality(drift) >= MaxViol THEN drift ELSE drift \cup {l + 1}
        /\ cnt' = Bump(cnt, IF ln.kind = "reset" THEN {"runs", "runs." \o ln.mode}
                            ELSE {"calls"} \cup (IF ln.hasB THEN {"backendCalls"} ELSE {}) \cup (IF ln.errM # "" THEN {"refusedCalls"} ELSE {})
                                 \cup (IF t.ev = "GameClosed" /\ gs.ev # "GameClosed" THEN {"handsClosed"} ELSE {}))
  /\ (l + 1 = Len(Trace)) =>
        PrintT(<<"RESULT", ToJson([lines |-> Len(Trace), viol |-> viol', drift |-> drift', cnt |-> cnt'])>>)
Spec == Init /\ [][Step]_<<l, gs, viol, drift, cnt>>
=============================================================================

----------------------------- MODULE ViewTrace -----------------------------
(***************************************************************************)
(* C15 on recorded states of the real engine: each line holds a state of a  *)
(* real hand and the views AsPlayer(i) / AsObserver() the real code         *)
(* prepared from a JSON clone of it, plus every card symbol found anywhere  *)
(* in each view's JSON (generic leak scan).  Lines are independent.         *)
(***************************************************************************)
EXTENDS HoldemJson, ViewProps
CONSTANTS TraceFile, Props, MaxViol
VARIABLES l, viol, drift, cnt
Trace == ndJsonDeserialize(TraceFile)

Check(ln) ==
  LET g == ToGs(ln.state, ln.deck)
      one(k) == LET vw == ln.views[k]
                    v == ToGs(vw.state, vw.deck)
                IN [bad |-> FailedView(g, v, vw.who, vw.found), drift |-> v # View(g, vw.who)]
      K == 1..Len(ln.views)
  IN [bad |-> UNION {one(k).bad : k \in K}, drift |-> \E k \in K : one(k).drift,
      tags |-> {"states", IF Closed(g) THEN "closed" ELSE "open"} \cup (IF Closed(g) /\ \E p \in Seats(g) : g.P[p].fold THEN {"closedWithFolded"} ELSE {})
               \cup (IF Len(g.board) >= 3 THEN {"withBoard"} ELSE {})]
Bump(cc, T) == [k \in (DOMAIN cc) \cup T |-> (IF k \in DOMAIN cc THEN cc[k] ELSE 0) + (IF k \in T THEN 1 ELSE 0)]
Init == l = 0 /\ viol = {} /\ drift = {} /\ cnt = [k \in {} |-> 0]
Step ==
  /\ l < Len(Trace) /\ l' = l + 1
  /\ LET r == Check(Trace[l + 1]) IN
     /\ viol' = viol \cup {<<l + 1, nm>> : nm \in {x \in r.bad : Cardinality({w \in viol : w[2] = x}) < MaxViol}}
     /\ drift' = IF r.drift /\ Cardinality(drift) < MaxViol THEN drift \cup {l + 1} ELSE drift
     /\ cnt' = Bump(cnt, r.tags \cup {"views" \o ToString(Len(Trace[l + 1].views))})
  /\ (l + 1 = Len(Trace)) =>
        PrintT(<<"RESULT", ToJson([lines |-> Len(Trace), viol |-> viol', drift |-> drift', cnt |-> cnt'])>>)
Spec == Init /\ [][Step]_<<l, viol, drift, cnt>>
=============================================================================

------------------------------- MODULE MCReg -------------------------------
(***************************************************************************)
(* Exhaustive model checking of the precise regulator model together with   *)
(* an environment of tables that follow its instructions, against RegProps  *)
(* (C09, C19, C20): all histories of registrations in batches 1..MaxBatch   *)
(* up to MaxReg players, status changes, syncs of any live table with       *)
(* 0..MaxOut eliminations, releases carried out at any later moment, calls  *)
(* naming an unknown table, and - from any reachable state after the start  *)
(* - a switch into SETTLE mode (sweeps of out = 0 syncs in every order,     *)
(* each instruction carried out before the next sync).                      *)
(***************************************************************************)
EXTENDS RegProps
CONSTANTS MX, MN, MaxReg, MaxBatch, MaxOut, Props, WithSettle
VARIABLES e, out, s, mode, left
vars == <<e, out, s, mode, left>>

AnyOrc == [any |-> TRUE, calls |-> <<>>]
MinK(S, k) == \* the k smallest elements of S, ascending sequence
  LET RECURSIVE F(_, _)
      F(T, n) == IF n = 0 \/ T = {} THEN <<>> ELSE LET m == CHOOSE x \in T : \A y \in T : x <= y IN <<m>> \o F(T \ {m}, n - 1)
  IN F(S, k)
ApplyCalls(mem, calls) ==
  LET RECURSIVE G(_, _)
      G(mm, k) == IF k > Len(calls) THEN mm
                  ELSE LET c == calls[k]
                       IN G([x \in (DOMAIN mm) \cup {c.id} |->
                               IF x = c.id THEN (IF x \in DOMAIN mm THEN mm[x] ELSE {}) \cup SeqSet(c.players) ELSE mm[x]], k + 1)
  IN G(mem, 1)
Without(fn, t) == [x \in (DOMAIN fn) \ {t} |-> fn[x]]
With(fn, t, v) == [x \in (DOMAIN fn) \cup {t} |-> IF x = t THEN v ELSE fn[x]]
NoCall == [op |-> "new", id |-> -1, out |-> 0, players |-> <<>>, err |-> "", release |-> 0, handed |-> <<>>, calls |-> <<>>, settle |-> ""]

Init == /\ e = [r |-> NewReg(MX, MN), member |-> [x \in {} |-> {}], pend |-> [x \in {} |-> 0], reg |-> {}, elim |-> {}, gone |-> {}]
        /\ out = NoCall /\ s = Settle0 /\ mode = "run" /\ left = {}
Emit(f, o, st) == e' = f /\ out' = [o EXCEPT !.settle = st] /\ s' = SettleNext(s, e, f, o, [settle |-> st])
NReg == Cardinality(e.reg)

Add == \E k \in 1..MaxBatch : NReg + k <= MaxReg /\
        LET ps == [i \in 1..k |-> NReg + i] IN
        \E x \in OpAddPlayers(e.r, ps, AnyOrc) :
          Emit([e EXCEPT !.r = x.r, !.member = ApplyCalls(e.member, x.calls), !.reg = IF x.ret.err = "" THEN e.reg \cup SeqSet(ps) ELSE e.reg],
               [NoCall EXCEPT !.op = "AddPlayers", !.players = ps, !.err = x.ret.err, !.calls = x.calls], "")
Status == \E st \in {Normal, AfterReg} : st > e.r.status /\
        \E x \in OpSetStatus(e.r, st, AnyOrc) :
          Emit([e EXCEPT !.r = x.r, !.member = ApplyCalls(e.member, x.calls)], [NoCall EXCEPT !.op = "SetStatus", !.out = st, !.calls = x.calls], "")
SyncOf(t, k, st) ==
        LET gone == MinK(e.member[t], k)
            mem1 == [e.member EXCEPT ![t] = @ \ SeqSet(gone)]
        IN \E x \in OpSync(e.r, t, k) :
             Emit([e EXCEPT !.r = x.r, !.elim = e.elim \cup SeqSet(gone),
                            !.member = [mem1 EXCEPT ![t] = @ \cup SeqSet(x.ret.players)],
                            !.pend = IF x.ret.release > 0 \/ t \notin DOMAIN x.r.tables THEN With(e.pend, t, x.ret.release) ELSE e.pend],
                  [NoCall EXCEPT !.op = "SyncState", !.id = t, !.out = k, !.err = x.ret.err, !.release = x.ret.release, !.handed = x.ret.players], st)
Sync == \E t \in DOMAIN e.member : t \notin DOMAIN e.pend /\ \E k \in 0..MaxOut : k <= Cardinality(e.member[t]) /\ SyncOf(t, k, "")
\* a call naming a table the regulator does not know: an id never given out, or a table that was told to break (whether
\* or not it has handed its players back yet) - with or without a number of eliminations; nothing happens at the tables
Stray == {e.r.nextId + 1} \cup e.gone \cup {t \in DOMAIN e.pend : t \notin DOMAIN e.r.tables}
SyncUnknown == \E t \in Stray : \E k \in 0..1 : \E x \in OpSync(e.r, t, k) :
        Emit(e, [NoCall EXCEPT !.op = "SyncState", !.id = t, !.out = k, !.err = x.ret.err], "")
ReleaseOf(t, st) ==
        LET ps == MinK(e.member[t], e.pend[t])
            broken == t \notin DOMAIN e.r.tables
            mem1 == IF broken THEN Without(e.member, t) ELSE [e.member EXCEPT ![t] = @ \ SeqSet(ps)]
        IN \E x \in OpRelease(e.r, ps, AnyOrc) :
             Emit([e EXCEPT !.r = x.r, !.member = ApplyCalls(mem1, x.calls), !.pend = Without(e.pend, t),
                            !.gone = IF broken THEN e.gone \cup {t} ELSE e.gone],
                  [NoCall EXCEPT !.op = "ReleasePlayers", !.id = t, !.players = ps, !.calls = x.calls], st)
Release == \E t \in DOMAIN e.pend : ReleaseOf(t, "")
\* ReleasePlayers naming a table nobody sits at, with nobody to hand back: accepted by the code in every phase (the break
\* protocol releases the players of a table already deleted); nothing happens at the tables (seeded change R5b-C)
ReleaseUnknown == \E x \in OpRelease(e.r, <<>>, AnyOrc) :
        Emit([e EXCEPT !.r = x.r, !.member = ApplyCalls(e.member, x.calls)],
             [NoCall EXCEPT !.op = "ReleasePlayers", !.id = e.r.nextId + 1, !.calls = x.calls], "")

RunNext == mode = "run" /\ (Add \/ Status \/ Sync \/ SyncUnknown \/ Release \/ ReleaseUnknown) /\ UNCHANGED <<mode, left>>
\* settle mode (C20)
Enter == /\ WithSettle /\ mode = "run" /\ e.r.status >= Normal /\ e.pend = [x \in {} |-> 0] /\ DOMAIN e.r.tables # {}
         /\ mode' = "settle" /\ left' = DOMAIN e.r.tables /\ Emit(e, [NoCall EXCEPT !.op = "nop"], "begin")
SyncS == /\ mode = "settle" /\ e.pend = [x \in {} |-> 0]
         /\ \E t \in left \cap DOMAIN e.r.tables : SyncOf(t, 0, "step") /\ left' = left \ {t} /\ UNCHANGED mode
RelS == mode = "settle" /\ (\E t \in DOMAIN e.pend : ReleaseOf(t, "step")) /\ UNCHANGED <<mode, left>>
SweepDone == mode = "settle" /\ e.pend = [x \in {} |-> 0] /\ (left \cap DOMAIN e.r.tables) = {}
NewSweep == SweepDone /\ ~(s.quiet /\ s.synced = DOMAIN e.r.tables) /\ s.sweep <= SettleBound
            /\ left' = DOMAIN e.r.tables /\ Emit(e, [NoCall EXCEPT !.op = "nop"], "sweep") /\ UNCHANGED mode
End == SweepDone /\ ((s.quiet /\ s.synced = DOMAIN e.r.tables) \/ s.sweep > SettleBound)
       /\ mode' = "done" /\ left' = {} /\ Emit(e, [NoCall EXCEPT !.op = "nop"], "end")
Next == RunNext \/ Enter \/ SyncS \/ RelS \/ NewSweep \/ End
Spec == Init /\ [][Next]_vars
LiveSpec == Spec /\ WF_vars(SyncS \/ RelS \/ NewSweep \/ End)
\* C20 as liveness: once in settle mode the tables reach quiescence
Settles == (mode = "settle") ~> (mode = "done")
View == <<e, s, mode, left>>
StepHolds == [][out'.op # "new" => FailedReg(s, e, e', out', [settle |-> out'.settle], Props) = {}]_vars
MaxSweeps == s.sweep <= SettleBound
=============================================================================

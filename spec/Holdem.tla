------------------------------- MODULE Holdem -------------------------------
(***************************************************************************)
(* Precise, implementation-shaped model of ONE HAND of weedbox/pokerface:   *)
(*   game.go, player.go, event.go, action.go, pot.go, settlement.go,        *)
(*   pot/level_list.go, settlement/settlement.go.                           *)
(*                                                                          *)
(* One operator per Go function, named after it.  Every public operation    *)
(* Op<Name>(g, ..., pw) is the WHOLE synchronous event chain of one Go call *)
(* (the linearization point of a call in this sequential library is its     *)
(* return) and yields [ok, g]: ok = FALSE means the call returned an error  *)
(* and g is unchanged.                                                      *)
(*                                                                          *)
(* `pw` : seat -> comb record [type, cards, power] - the hand evaluation    *)
(* the code publishes when a street is dealt.  The evaluator is modelled    *)
(* separately (HandRank.tla); here it is an oracle: bound from the trace    *)
(* when validating, chosen nondeterministically when model checking.        *)
(*                                                                          *)
(* Deliberate deviations from idealised poker that the CODE has and that    *)
(* the model therefore has (do not "fix" them here):                        *)
(*   ShortAllinReopens, CallToBigBlind, OnlyBBSkipsBlinds,                  *)
(*   UndersizedRaiseBecomesAllin, PotLimitCapsRaiseOnly                     *)
(* see DESIGN.md 2.1.                                                       *)
(***************************************************************************)
EXTENDS Settlement, HoldemChips

NULL == <<>>   \* JSON null / absent pointer

-----------------------------------------------------------------------------
(* ---------- the hand ---------- *)
NextSeat(g, c) == (c + 1) % g.n
Alive(g) == {i \in Seats(g) : ~g.P[i].fold}
Movable(g) == {i \in Seats(g) : ~g.P[i].fold /\ g.P[i].stack # 0}
Has(g, i, role) == role \in g.P[i].pos
DealerOf(g) == CHOOSE i \in Seats(g) : Has(g, i, "dealer")
OrderFromDealer(g) == [k \in 1..g.n |-> (DealerOf(g) + k - 1) % g.n]

ResetPlayers(g) == [g EXCEPT !.P = [i \in Seats(g) |-> [g.P[i] EXCEPT !.acted = FALSE, !.allowed = <<>>]]]

ResetRoundStatus(g) ==
  [g EXCEPT !.prs = 0, !.maxWager = 0, !.roundPot = 0, !.cw = 0, !.raiser = DealerOf(g), !.cur = DealerOf(g)]

AvailableActions(g, i) ==
  LET p == g.P[i] IN
  IF p.fold THEN <<"pass">>
  ELSE IF p.stack = 0 THEN <<"pass">>
  ELSE <<"allin">> \o
       (IF p.wager < g.cw
        THEN <<"fold">> \o (IF p.init > g.cw
                            THEN <<"call">> \o (IF p.init > g.cw + g.prs THEN <<"raise">> ELSE <<>>)
                            ELSE <<>>)
        ELSE <<"check">> \o (IF p.init >= g.miniBet
                             THEN (IF g.cw = 0 THEN <<"bet">> ELSE <<"raise">>)
                             ELSE <<>>))

SetCurrentPlayer(g, i) ==
  LET g1 == IF g.cur # -1 THEN [g EXCEPT !.P[g.cur].allowed = <<>>] ELSE g
      g2 == [g1 EXCEPT !.cur = i]
  IN [g2 EXCEPT !.P[i].allowed = AvailableActions(g2, i)]

SetLast(g, src, ty, v) == [g EXCEPT !.last = [source |-> src, type |-> ty, value |-> v]]

UpdatePots(g) ==
  [g EXCEPT !.pots = GetPots([i \in Seats(g) |-> g.P[i].pot + g.P[i].wager],
                             [i \in Seats(g) |-> g.P[i].fold], Seats(g))]

CalculateResults(g) ==
  LET score == [i \in Seats(g) |-> IF g.P[i].fold THEN 0 ELSE g.P[i].comb.power]
      r == Settle(g.pots, score, Seats(g))
  IN [g EXCEPT !.result =
        [players |-> [i \in Seats(g) |-> [present |-> TRUE, final |-> g.P[i].bankroll + r.chg[i], changed |-> r.chg[i]]],
         pots |-> [k \in 1..Len(g.pots) |-> [total |-> g.pots[k].total, winners |-> r.potw[k]]],
         extra |-> 0]]

\* total also past the end of the deck (the Go code indexes the slice and panics there; a recorded state of a CHANGED engine may
\* sit at any deck position - seeded change R5b-D burned two cards per street - and the trace specification must not die on it:
\* the model deals what is left, the recorded panic shows as drift and whatever clause of C14 it breaks as a violation)
Deal(g, k) == LET n == Len(g.meta.deck)
                  a == g.deckPos + 1
                  b == IF g.deckPos + k > n THEN n ELSE g.deckPos + k
              IN [cards |-> IF a > b \/ a < 1 THEN <<>> ELSE SubSeq(g.meta.deck, a, b), g |-> [g EXCEPT !.deckPos = g.deckPos + k]]
Burn1(g) == LET d == Deal(g, 1) IN [d.g EXCEPT !.burned = g.burned \o d.cards]

RECURSIVE Emit(_, _, _)
RequestReady(g, pw) == Emit(ResetPlayers(g), "ReadyRequested", pw)
PrepareRound(g, pw) ==
  IF g.round = "preflop" THEN RequestReady(g, pw)
  ELSE IF Cardinality(Movable(g)) <= 1 THEN Emit(g, "RoundClosed", pw)
  ELSE RequestReady(g, pw)
InitializeRound(g, pw) ==
  LET g1 ==
        IF g.round = "preflop"
        THEN LET RECURSIVE D(_, _)
                 D(gg, i) == IF i = gg.n THEN gg
                             ELSE LET d == Deal(gg, gg.meta.holeN)
                                  IN D([d.g EXCEPT !.P[i].hole = d.cards], i + 1)
             IN D(g, 0)
        ELSE LET gb == Burn1(g)
                 d == Deal(gb, IF g.round = "flop" THEN 3 ELSE 1)
             IN SetCurrentPlayer([d.g EXCEPT !.board = gb.board \o d.cards], DealerOf(g))
      g2 == [g1 EXCEPT !.P = [i \in Seats(g1) |-> [g1.P[i] EXCEPT !.comb = pw[i]]]]
  IN Emit(g2, "RoundInitialized", pw)
StartRound(g0, pw) ==
  LET g == ResetPlayers(g0) IN
  IF g.round = "preflop"
  THEN IF Cardinality(Movable(g)) = 0 THEN Emit(g, "RoundClosed", pw)
       ELSE LET RECURSIVE Walk(_, _)
                Walk(gg, i) ==
                  IF i = gg.n THEN gg
                  ELSE LET p == NextSeat(gg, gg.cur)
                       IN IF Has(gg, p, "bb") THEN SetCurrentPlayer(gg, p)
                          ELSE Walk(SetCurrentPlayer(gg, p), i + 1)
            IN Emit(Walk(SetCurrentPlayer(g, DealerOf(g)), 0), "RoundStarted", pw)
  ELSE Emit(SetCurrentPlayer(g, DealerOf(g)), "RoundStarted", pw)
RequestPlayerAction(g, pw) ==
  IF Cardinality(Alive(g)) = 1 THEN Emit(g, "RoundClosed", pw)
  ELSE IF Cardinality(Movable(g)) = 0 THEN Emit(g, "RoundClosed", pw)
  ELSE LET p == NextSeat(g, g.cur)
       IN IF g.P[p].acted THEN Emit(g, "RoundClosed", pw) ELSE SetCurrentPlayer(g, p)
EnterRound(g, r, pw) ==
  Emit([g EXCEPT !.round = r],
       CASE r = "preflop" -> "PreflopRoundEntered" [] r = "flop" -> "FlopRoundEntered"
         [] r = "turn" -> "TurnRoundEntered" [] r = "river" -> "RiverRoundEntered", pw)

Emit(g0, ev, pw) ==
  LET g == [g0 EXCEPT !.ev = ev] IN
  CASE ev = "Started" ->
         LET mb == IF g.meta.dealerBlind > g.meta.bb THEN g.meta.dealerBlind ELSE g.meta.bb
         IN Emit(ResetRoundStatus([g EXCEPT !.miniBet = mb]), "Initialized", pw)
    [] ev = "Initialized" -> RequestReady(g, pw)
    [] ev = "ReadyRequested" -> g
    [] ev = "Readiness" -> IF g.round = "" THEN Emit(g, "Prepared", pw) ELSE Emit(g, "RoundPrepared", pw)
    [] ev = "Prepared" -> IF g.meta.ante > 0 THEN Emit(g, "AnteRequested", pw) ELSE EnterRound(g, "preflop", pw)
    [] ev = "AnteRequested" -> g
    [] ev = "AntePaid" -> EnterRound(ResetRoundStatus(ResetAllPlayerStatus(UpdatePots(g))), "preflop", pw)
    [] ev \in {"PreflopRoundEntered", "FlopRoundEntered", "TurnRoundEntered", "RiverRoundEntered"} -> InitializeRound(g, pw)
    [] ev = "RoundInitialized" ->
         IF g.round = "preflop"
         THEN IF g.meta.dealerBlind = 0 /\ g.meta.sb = 0 /\ g.meta.bb > 0
              THEN Emit(g, "BlindsPaid", pw) ELSE Emit(g, "BlindsRequested", pw)
         ELSE PrepareRound(g, pw)
    [] ev = "BlindsRequested" -> g
    [] ev = "BlindsPaid" -> PrepareRound(g, pw)
    [] ev = "RoundPrepared" -> StartRound(g, pw)
    [] ev = "RoundStarted" -> RequestPlayerAction(g, pw)
    [] ev = "RoundClosed" -> UpdatePots(ResetPlayers(g))
    [] ev = "GameCompleted" -> Emit(g, "SettlementRequested", pw)
    [] ev = "SettlementRequested" -> Emit(CalculateResults(UpdatePots(g)), "SettlementCompleted", pw)
    [] ev = "SettlementCompleted" -> Emit(g, "GameClosed", pw)
    [] ev = "GameClosed" -> g

Resume(g, pw) == IF g.ev # "" THEN Emit(g, g.ev, pw) ELSE g
HasAction(g, i, a) == \E k \in 1..Len(g.P[i].allowed) : g.P[i].allowed[k] = a

(* ---- public operations: each returns [ok, g]; ok = FALSE means refused (g unchanged) ---- *)
OK(g) == [ok |-> TRUE, g |-> g]
NO(g) == [ok |-> FALSE, g |-> g]

OpStart(g, pw) ==
  IF g.n < 2 \/ ~(\E i \in Seats(g) : Has(g, i, "dealer")) \/ (\E i \in Seats(g) : g.P[i].bankroll <= 0)
     \/ Len(g.meta.deck) = 0
  THEN NO(g)
  ELSE OK(Emit([g EXCEPT !.pots = <<>>, !.board = <<>>, !.burned = <<>>], "Started", pw))

OpReadyForAll(g, pw) ==
  IF g.ev # "ReadyRequested" THEN NO(g) ELSE OK(Emit(ResetPlayers(g), "Readiness", pw))

OpPayAnte(g, pw) ==
  IF g.meta.ante = 0 \/ g.ev # "AnteRequested" THEN NO(g)
  ELSE LET ord == OrderFromDealer(g)
           RECURSIVE F(_, _)
           F(gg, k) == IF k > gg.n THEN gg
                       ELSE LET i == ord[k]
                                g1 == Pay(gg, i, gg.meta.ante, FALSE)
                            IN F(SetLast(g1, i, "ante", g1.P[i].wager), k + 1)
       IN OK(Emit(ResetPlayers(F(g, 1)), "AntePaid", pw))

OpPayBlinds(g, pw) ==
  IF g.ev # "BlindsRequested" THEN NO(g)
  ELSE LET ord == OrderFromDealer(g)
           RECURSIVE F(_, _)
           F(gg, k) ==
             IF k > gg.n THEN gg
             ELSE LET i == ord[k]
                      m == gg.meta
                      sel == IF m.bb > 0 /\ Has(gg, i, "bb") THEN <<m.bb, "big_blind">>
                             ELSE IF m.sb > 0 /\ Has(gg, i, "sb") THEN <<m.sb, "small_blind">>
                             ELSE IF m.dealerBlind > 0 /\ Has(gg, i, "dealer") THEN <<m.dealerBlind, "dealer_blind">>
                             ELSE <<0, "dealer_blind">>
                      chips == IF gg.P[i].stack < sel[1] THEN gg.P[i].stack ELSE sel[1]
                  IN F(SetLast(Pay(gg, i, chips, TRUE), i, sel[2], chips), k + 1)
           g1 == F(g, 1)
           g2 == [g1 EXCEPT !.prs = IF g.meta.bb > 0 THEN g.meta.bb ELSE g.meta.dealerBlind]
       IN OK(Emit(ResetPlayers(g2), "BlindsPaid", pw))

OpFold(g, i, pw) ==
  IF ~HasAction(g, i, "fold") THEN NO(g)
  ELSE OK(Resume(SetLast([g EXCEPT !.P[i].fold = TRUE, !.P[i].did = "fold", !.P[i].acted = TRUE], i, "fold", 0), pw))
OpCheck(g, i, pw) ==
  IF ~HasAction(g, i, "check") THEN NO(g)
  ELSE OK(Resume(SetLast([g EXCEPT !.P[i].did = "check", !.P[i].acted = TRUE], i, "check", 0), pw))
OpPass(g, i, pw) ==
  IF ~HasAction(g, i, "pass") THEN NO(g)
  ELSE OK(Resume(SetLast([g EXCEPT !.P[i].acted = TRUE], i, "pass", 0), pw))
OpCall(g, i, pw) ==
  IF ~HasAction(g, i, "call") THEN NO(g)
  ELSE LET delta == IF g.cw < g.meta.bb THEN g.meta.bb - g.P[i].wager ELSE g.cw - g.P[i].wager
           g1 == Pay([g EXCEPT !.P[i].did = "call", !.P[i].acted = TRUE], i, delta, TRUE)
       IN OK(Resume(SetLast(g1, i, "call", delta), pw))
OpBet(g, i, x, pw) ==
  IF ~HasAction(g, i, "bet") THEN NO(g)
  ELSE IF x <= 0 THEN NO(g)
  ELSE LET g1 == Pay([g EXCEPT !.P[i].did = "bet", !.P[i].acted = TRUE], i, x, TRUE)
       \* the minimum raise is the bet actually made (a bet above the stack is an all-in for less)
       IN OK(Resume(SetLast([g1 EXCEPT !.prs = g1.P[i].wager], i, "bet", x), pw))
OpAllin(g, i, pw) ==
  IF ~HasAction(g, i, "allin") THEN NO(g)
  ELSE LET g0 == [g EXCEPT !.P[i].did = "allin", !.P[i].acted = TRUE]
           raised == g.P[i].init - g.cw
           g1 == IF raised >= g.prs THEN [g0 EXCEPT !.prs = raised] ELSE g0
           g2 == Pay(g1, i, g1.P[i].stack, TRUE)
       IN OK(Resume(SetLast(g2, i, "allin", g.P[i].init), pw))
OpRaise(g, i, L, pw) ==
  IF ~HasAction(g, i, "raise") THEN NO(g)
  ELSE IF L = 0 \/ L < g.cw THEN NO(g)
  ELSE IF L = g.cw THEN OpCall(g, i, pw)
  ELSE LET raised == L - g.cw
           required == L - g.P[i].wager
       IN IF L >= g.P[i].init \/ raised < g.prs THEN OpAllin(g, i, pw)
          ELSE LET cap == g.meta.limit = "pot" /\ raised > g.cw + g.prs
                   raised2 == IF cap THEN g.cw + g.prs ELSE raised
                   required2 == IF cap THEN g.cw + g.prs + g.cw - g.P[i].wager ELSE required
                   g1 == [g EXCEPT !.P[i].did = "raise", !.P[i].acted = TRUE, !.prs = raised2]
                   g2 == Pay(g1, i, required2, TRUE)
               IN OK(Resume(SetLast(g2, i, "raise", required2), pw))

NextRound(g0, pw) ==
  LET g == ResetAllPlayerStatus(ResetRoundStatus(g0)) IN
  IF Cardinality(Alive(g)) = 1 THEN Emit(g, "GameCompleted", pw)
  ELSE CASE g.round = "preflop" -> EnterRound(g, "flop", pw)
         [] g.round = "flop" -> EnterRound(g, "turn", pw)
         [] g.round = "turn" -> EnterRound(g, "river", pw)
         [] g.round = "river" -> Emit(g, "GameCompleted", pw)
OpNext(g, pw) ==
  IF g.ev # "RoundClosed" THEN NO(g)
  ELSE LET g1 == SetLast(g, -1, "next", 0)
       IN IF g.round \in {"preflop", "flop", "turn", "river"} THEN OK(NextRound(g1, pw)) ELSE OK(g1)

(* ---- construction ---- *)
NoComb == [type |-> "", cards |-> <<>>, power |-> 0]   \* &CombinationInfo{}
NewGame(cfg) ==
  [ n |-> Len(cfg.bank), meta |-> cfg.meta, ev |-> "", round |-> "",
    cur |-> 0, raiser |-> 0, cw |-> 0, prs |-> 0, miniBet |-> 0, maxWager |-> 0, roundPot |-> 0,
    deckPos |-> 0, board |-> <<>>, burned |-> <<>>, pots |-> <<>>, last |-> <<>>, result |-> <<>>,
    P |-> [i \in 0..(Len(cfg.bank) - 1) |->
            [pos |-> cfg.pos[i + 1], acted |-> FALSE, fold |-> FALSE, did |-> "", vpip |-> FALSE,
             allowed |-> <<>>, bankroll |-> cfg.bank[i + 1], init |-> cfg.bank[i + 1],
             stack |-> cfg.bank[i + 1], pot |-> 0, wager |-> 0, hole |-> <<>>, comb |-> NoComb]] ]
=============================================================================

----------------------------- MODULE HoldemJson -----------------------------
(***************************************************************************)
(* Shared by the engine trace specifications: the recorded JSON state as    *)
(* the record of Holdem.tla, and the precise model as a predicate on        *)
(* (state before, recorded call, state after).                              *)
(***************************************************************************)
EXTENDS HoldemProps, Json

ToGs(js, deck) ==
  [ n |-> js.n,
    meta |-> [ante |-> js.meta.ante, dealerBlind |-> js.meta.dealerBlind, sb |-> js.meta.sb, bb |-> js.meta.bb,
              limit |-> js.meta.limit, holeN |-> js.meta.holeN, reqHole |-> js.meta.reqHole,
              ranking |-> js.meta.ranking, deck |-> deck],
    ev |-> js.ev, round |-> js.round, cur |-> js.cur, raiser |-> js.raiser,
    cw |-> js.cw, prs |-> js.prs, miniBet |-> js.miniBet, maxWager |-> js.maxWager, roundPot |-> js.roundPot,
    deckPos |-> js.deckPos, board |-> js.board, burned |-> js.burned,
    pots |-> [k \in 1..Len(js.pots) |->
                LET p == js.pots[k] IN
                [level |-> p.level, wager |-> p.wager, total |-> p.total,
                 contrib |-> [i \in {p.contrib[j][1] : j \in 1..Len(p.contrib)} |->
                                LET j == CHOOSE j \in 1..Len(p.contrib) : p.contrib[j][1] = i IN p.contrib[j][2]],
                 levels |-> <<>>]],
    last |-> js.last,
    result |-> IF js.result = NULL THEN NULL
               ELSE [players |-> [i \in 0..(js.n - 1) |-> js.result.players[i + 1]],
                     pots |-> js.result.pots, extra |-> js.result.extra],
    P |-> [i \in 0..(js.n - 1) |->
             LET p == js.P[i + 1] IN
             [pos |-> ToSet(p.pos), acted |-> p.acted, fold |-> p.fold, did |-> p.did, vpip |-> p.vpip,
              allowed |-> p.allowed, bankroll |-> p.bankroll, init |-> p.init, stack |-> p.stack,
              pot |-> p.pot, wager |-> p.wager, hole |-> p.hole, comb |-> p.comb]] ]

LineGs(ln, prevDeck) == ToGs(ln.state, IF ln.deckSame THEN prevDeck ELSE ln.deck)

\* ---- conformance layer: the precise model as a predicate on (g, call, t) ----
Norm(g) == [g EXCEPT !.pots = [k \in 1..Len(g.pots) |-> [g.pots[k] EXCEPT !.levels = <<>>]]]
Apply(g, ln, pw, t) ==
  CASE ln.op = "Start" -> OpStart([g EXCEPT !.meta.deck = t.meta.deck], pw)   \* the shuffle is bound from the trace
    [] ln.op = "ReadyForAll" -> OpReadyForAll(g, pw)
    [] ln.op = "PayAnte" -> OpPayAnte(g, pw)
    [] ln.op = "PayBlinds" -> OpPayBlinds(g, pw)
    [] ln.op = "Next" -> OpNext(g, pw)
    [] ln.op = "Rehydrate" -> OK(g)
    [] ln.seat \notin Seats(g) -> NO(g)
    [] ln.op = "Fold" -> OpFold(g, ln.seat, pw)
    [] ln.op = "Check" -> OpCheck(g, ln.seat, pw)
    [] ln.op = "Call" -> OpCall(g, ln.seat, pw)
    [] ln.op = "Allin" -> OpAllin(g, ln.seat, pw)
    [] ln.op = "Pass" -> OpPass(g, ln.seat, pw)
    [] ln.op = "Bet" -> OpBet(g, ln.seat, ln.x, pw)
    [] ln.op = "Raise" -> OpRaise(g, ln.seat, ln.x, pw)
    [] OTHER -> NO(g)
StepOK(g, ln, t) ==
  LET pw == [i \in Seats(t) |-> t.P[i].comb]
      r == Apply(g, ln, pw, t)
  IN Norm(r.g) = t /\ (r.ok <=> ln.err = "")
=============================================================================

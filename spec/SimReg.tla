------------------------------- MODULE SimReg -------------------------------
(***************************************************************************)
(* Script generation for the regulator (direction A): TLC -simulate walks   *)
(* the precise model Regulator with an environment of obedient tables and   *)
(* prints each tournament as a JSON script for `vdrive reg-replay`.         *)
(***************************************************************************)
EXTENDS Regulator, Json
CONSTANTS Settings
VARIABLES r, member, pend, nreg, hist
SimSettings == {<<3, 2>>, <<4, 3>>, <<3, 3>>, <<6, 5>>, <<5, 3>>, <<9, 6>>, <<4, 2>>, <<2, 2>>}
AnyOrc == [any |-> TRUE, calls |-> <<>>]
SeqSet(q) == {q[k] : k \in 1..Len(q)}
ApplyCalls(mem, calls) ==
  LET RECURSIVE G(_, _)
      G(mm, k) == IF k > Len(calls) THEN mm
                  ELSE LET c == calls[k]
                       IN G([x \in (DOMAIN mm) \cup {c.id} |-> IF x = c.id THEN (IF x \in DOMAIN mm THEN mm[x] ELSE 0) + Len(c.players) ELSE mm[x]], k + 1)
  IN G(mem, 1)
Without(fn, t) == [x \in (DOMAIN fn) \ {t} |-> fn[x]]
With(fn, t, v) == [x \in (DOMAIN fn) \cup {t} |-> IF x = t THEN v ELSE fn[x]]
Rec(op, n, t) == hist' = Append(hist, [op |-> op, n |-> n, t |-> t])
Init == r = [max |-> 0] /\ member = [x \in {} |-> 0] /\ pend = [x \in {} |-> 0] /\ nreg = 0 /\ hist = <<>>
Setup == r.max = 0 /\ \E st \in Settings : r' = NewReg(st[1], st[2]) /\ hist' = <<[max |-> st[1], min |-> st[2]]>> /\ UNCHANGED <<member, pend, nreg>>
Add == \E k \in {1, 2, 3, r.max, r.max + 1, 2 * r.max + 1} :
        LET ps == [i \in 1..k |-> nreg + i] IN
        \E x \in OpAddPlayers(r, ps, AnyOrc) :
          r' = x.r /\ member' = ApplyCalls(member, x.calls) /\ nreg' = (IF x.ret.err = "" THEN nreg + k ELSE nreg) /\ Rec("Add", k, -1) /\ UNCHANGED pend
Status == \E st \in {Normal, AfterReg} : st = r.status + 1 /\ \E x \in OpSetStatus(r, st, AnyOrc) :
          r' = x.r /\ member' = ApplyCalls(member, x.calls) /\ Rec("Status", st, -1) /\ UNCHANGED <<pend, nreg>>
Sync == \E t \in DOMAIN member : t \notin DOMAIN pend /\ \E k \in 0..2 : k <= member[t] /\
        \E x \in OpSync(r, t, k) :
          /\ r' = x.r /\ member' = [member EXCEPT ![t] = @ - k + Len(x.ret.players)]
          /\ pend' = (IF x.ret.release > 0 \/ t \notin DOMAIN x.r.tables THEN With(pend, t, x.ret.release) ELSE pend)
          /\ Rec("Sync", k, t) /\ UNCHANGED nreg
Release == \E t \in DOMAIN pend :
        LET broken == t \notin DOMAIN r.tables
            ps == [i \in 1..pend[t] |-> 1000 + i]      \* identities do not matter for the script
            mem1 == IF broken THEN Without(member, t) ELSE [member EXCEPT ![t] = @ - pend[t]]
        IN \E x \in OpRelease(r, ps, AnyOrc) :
             r' = x.r /\ member' = ApplyCalls(mem1, x.calls) /\ pend' = Without(pend, t) /\ Rec("Release", 0, t) /\ UNCHANGED nreg
SettleOp == r.status >= Normal /\ pend = [x \in {} |-> 0] /\ DOMAIN member # {} /\ Len(hist) % 6 = 0
            /\ Rec("Settle", Len(hist), -1) /\ UNCHANGED <<r, member, pend, nreg>>
Next == IF r.max = 0 THEN Setup ELSE (Len(hist) < 40 /\ (Add \/ Status \/ Sync \/ Sync \/ Release \/ Release \/ SettleOp))
Spec == Init /\ [][Next]_<<r, member, pend, nreg, hist>>
Dump == Len(hist) >= 40 => PrintT(<<"SCRIPT", ToJson(hist)>>)
=============================================================================

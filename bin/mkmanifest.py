#!/usr/bin/env python3
"""Regenerates /verif/MANIFEST.json from the table below (keeps it valid at all times)."""
import json
import os
import subprocess

VERIF = os.path.dirname(os.path.dirname(os.path.abspath(__file__)))

ENGINE_NOTE = ("Trusted: TLC 1.8.0 + CommunityModules Json; the Go projection harness/cmd/vdrive/proj_*.go; the operation alphabet of "
               "DESIGN.md 2.1. Exhaustive only within the stated small scopes; beyond them seeded random exploration. The engine checks also validate the traces of the "
               "repository's own scenario tests (testcases/ of the working tree, every game wrapped by harness/vrec; DESIGN.md 3.5).")

CHECKS = {
    "C01": ("spec/HoldemProps.tla C01_* evaluated by TLC on every recorded step of the real engine",
            "Chip identity, round pot, published pots and settlement sums as TLA+ state/step predicates; model-checked on the precise "
            "model Holdem.tla in a small scope and evaluated on every step of exhaustive small-scope exploration, TLC-generated scripts "
            "and seeded random hands of the real engine (boundary stacks, antes, dead SB, pot-limit, both decks); PayProof proves with TLAPS that the one chip-moving operator of the model keeps the identity in every game state."),
    "C02": ("spec/PotProps.tla C02_* on every contribution/fold/strength vector fed to the real pot+settlement packages and on every closed hand",
            "Showdown payout as input/output predicates (folded wins nothing and gets uncalled chips back; a player collects an equal "
            "share, within one chip, of exactly the side pots he is among the best of; zero sum). MCPots checks the precise model "
            "Pots/Settlement for all vectors in scope; the real packages are fed every vector of the scope in every insertion order "
            "(<= 4 players, the settlement's players registered in a permuted order) plus seeded realistic vectors; every GameClosed state of real play is judged by the same predicates."),
    "C03": ("spec/RankTrace.tla: the evaluator's complete function table (all hands, both decks, both tables) against HandRank.RefKey",
            "Exhaustive over inputs: every five-card hand of both decks under both ranking tables is evaluated by the real "
            "combination.CalculatePower (several card orders), reduced to classes; TLC checks one result per class, the category name and "
            "order-isomorphism with the TLA+ reference order RefKey along the score-sorted table; MCRank checks the lemma Score~RefKey on the model.",
            ),
    "C04": ("spec/HoldemProps.tla C04_* incl. refusal probes of every seat x action x amount",
            "Turn order and refusals: first-to-act, clockwise walk, single offered seat, and state-unchanged refusal of every "
            "out-of-turn / unoffered / wrong-phase call, probed on JSON clones at every state of probe runs."),
    "C05": ("spec/HoldemProps.tla C05_* with history variables hadTurn/since",
            "Round closing rule (not early / not late / one left / no betting when all-in / full board) with history variables "
            "maintained by the trace specification; all interleavings in the model-checking scope, real traces validated."),
    "C06": ("spec/HoldemProps.tla C06_* + liveness Terminates under WF in MCHoldem",
            "Single wait point and a single indication (no seat is offered an action while a table operation is awaited; during a betting round the player to act is offered something), expected step succeeds, street order, result iff closed, closed is final; termination as liveness on the "
            "model and as bounded non-progress on every real trace; Start defects singly and in pairs; layouts without a big-blind seat; a call that never returns is recorded by a watchdog as the call's error."),
    "C15": ("spec/ViewProps.tla FailedView on every recorded state x every seat + observer, with a generic card-symbol leak scan",
            "Deck and burned cards never in a view; other players' hole cards and evaluations hidden before the close, folded ones after it; the "
            "viewer's own seat and all public fields identical to the full state; every card symbol found anywhere in the view's JSON is public. "
            "MCViews checks the view operator on every reachable model state."),
    "C16": ("spec/PotProps.tla C16_* on every vector fed to pot.LevelList and on every published pot list of real play",
            "Published pots: strictly increasing levels, totals from all players, eligible = non-folded who reached the level listed with "
            "the per-pot amount, strictly shrinking eligible sets, totals sum to all chips; exhaustive small-scope vectors in every "
            "insertion order and every RoundClosed/GameClosed state of real play."),
    "C07": ("spec/ResumeTrace.tla + spec/TableGameTrace.tla: in-memory vs re-hydrated-from-JSON vs NativeBackend vs second run vs the table layer, in lock-step on real hands",
            "Three instances driven by the same deck and script (re-hydration before every call and at every scripted cut point, the stateless "
            "backend for every call) stay equal after every call incl. refused ones, with equal errors; the backend leaves its input untouched; "
            "a second in-memory run is identical; whole hands driven through table/game.go (ready group, auto-next, every call through the "
            "stateless backend) stay equal to an in-memory game and conform to the model TableGame.tla. In the model re-hydration is a "
            "stuttering step enabled at every wait point. Whole tables (table/table.go hand loop over several hands, all game calls through the stateless backend) "
            "conform to Table.tla, which MCTable model-checks."),
    "C08": ("spec/SeatProps.tla C08_positions + late-joiner history tracking, on the real SeatManager's own state graph and histories",
            "Positions after every successful Next and the late-joiner rule (tracked from the join while the other seats stay put) as TLA+ "
            "predicates; MCSeat checks the precise model for all histories on 3 seats (4, 5 thorough); the real manager's reachable graph is "
            "enumerated (3 seats with identities, 5 seats up to identities) and every call validated, plus random and TLC-generated histories, a committed corpus "
            "(one script per signature class of calls of the complete 3..6-seat graphs, with late-joiner runs) and the positions of the seat manager as the real table uses it. "
            "One open known finding (F8)."),
    "C09": ("spec/RegProps.tla C09_* on every call of real tournaments (queue read through the verif snapshot hook)",
            "Every live player in exactly one place (queue or one table), no duplicates, the regulator's totals equal the real numbers wherever "
            "the instruction has been carried out, refusals leave everything unchanged; MCReg checks the precise model + obedient tables for all "
            "histories of small tournaments; the real regulator's own reachable graph is enumerated in the same small scopes (states rebuilt by replay) and every transition validated; "
            "plus random tournaments, a settings sweep and TLC-generated scripts; unknown-table calls name fresh ids and tables that were told to break; stray ReleasePlayers calls in every phase."),
    "C10": ("spec/HoldemProps.tla C10_* with HandRank.Admissible/RefKey on every street of real hands (constructed and random decks)",
            "Each published hand is five own cards, admissible (exactly the required hole cards), unbeaten by any admissible selection under "
            "RefKey, with category/strength equal to the evaluator re-run on those cards, stable between streets, and the showdown pays by the "
            "published strengths. Sampled (constructed category-boundary decks + random + TLC scripts), not exhaustive over C(52,7)."),
    "C11": ("spec/HoldemProps.tla C11_offer/C11_effect, every offered action forked at every decision point",
            "Offer table read from the chips on the table (not the engine's bookkeeping) and effects of each action; each offered action "
            "and size class exercised on JSON clones at each reached decision point."),
    "C12": ("spec/HoldemProps.tla C12_raise/C12_bounds/C12_monotone with boundary and hostile amounts",
            "Minimum-raise rule, monotone wager, chips never negative nor above bankroll for any amount argument (negative, zero, "
            "boundary, oversized up to +-10^8; TLC integers are 32 bit so int64 extremes are represented by +-10^8)."),
    "C13": ("spec/HoldemProps.tla C13_* on a sweep of seat counts x button x structures x boundary bankrolls",
            "Forced bets: antes to the pot, blinds by role capped at the stack, wager to match = largest blind, minimum raise = bb; "
            "sweep over boundary stacks for every structure; the bb-only structure is a recorded known finding (F6)."),
    "C14": ("spec/HoldemProps.tla C14_* (consumed prefix, counts per street, stability, shuffle is a permutation)",
            "Dealt cards are, as a collection and each once, exactly the consumed top of the deck (burn before its street), never change, counts per street, and Start's shuffle "
            "is a permutation; real shuffles and forced decks, both decks, 2 and 4 hole cards."),
    "C17": ("spec/SeatProps.tla C17_button/C17_insufficient on every Next of the real SeatManager's state graph and histories",
            "Button moves to the first playable seat clockwise from the dealer the last move left behind (a history variable: seat operations other than Next do not move the button), never stalls or skips; fewer than two able to play => the insufficient-players "
            "error, never a panic; same exploration as C08 (Reset() is part of the alphabet); SeatNextProof proves the button rule on the model of nextDealer with TLAPS for any number of seats."),
    "C18": ("spec/SeatProps.tla C18_* incl. concurrent Join episodes under a decided schedule (gate hook) + SeatJoinConc.tla",
            "Join/Leave/any-seat semantics, seated = joins - leaves, no panic on any call incl. out-of-range seats; concurrent joins: one "
            "goroutine is held between check and commit by the verif gate hook while the others must block on the mutex; the episode "
            "predicates are order-free; SeatJoinConc model-checks all interleavings of Lock/Check/Commit/Unlock for 3 goroutines and SeatJoinProof proves the protocol invariants "
            "with TLAPS for any number of goroutines and seats; match.Table (match/table.go) "
            "is driven as a client of the seat manager (Join, ApplySeatChanges with callbacks)."),
    "C19": ("spec/RegProps.tla C19_* over a sweep of all settings 2<=min<=max<=6 (10 thorough) x registrant counts x batch modes",
            "No request/assign/sync hand-out ever makes a table exceed the maximum, no table before the start or before min registrants, "
            "initial tables get at least min; MCReg for small settings, the real regulator's reachable graph in the same scopes, sweep + random tournaments on the real regulator."),
    "C20": ("spec/RegProps.tla C20_* settle episodes (sweeps of out=0 syncs) + liveness Settles in MCReg",
            "From reachable states, sweeping all tables with no eliminations reaches a full quiet sweep within 8 sweeps (model needs 2, real 3); "
            "a broken table releases all members and each is re-queued or re-seated elsewhere; liveness `settle ~> done` under weak fairness on the model; settle episodes start from every state of the real regulator's small-scope graph and at random points of random tournaments."),
}


def main():
    src = subprocess.run(["git", "-C", "/repo", "log", "--format=%H %s"], stdout=subprocess.PIPE, text=True).stdout.splitlines()
    hook_commits = [l.split()[0] for l in src if l.split(" ", 1)[1].startswith("verif:")]
    checks = []
    for pid, tt in sorted(CHECKS.items()):
        tech, text = tt[0], tt[1]
        checks.append({
            "property_id": pid,
            "quick_cmd": "bin/check %s --tier quick" % pid,
            "thorough_cmd": "bin/check %s --tier thorough" % pid,
            "evidence_file": "/verif/evidence/%s.json" % pid,
            "replay_cmd_template": "bin/check %s --replay {path}" % pid,
            "engine": "tla-trace-validation",
            "level_claimed": {"category": "model_checking", "text": text, "design_ref": "DESIGN.md section 5, " + pid},
            "level_note": ENGINE_NOTE,
            "technique": "TLA+ model + TLC; trace validation of real executions: " + tech,
        })
    all_ids = ["C%02d" % i for i in range(1, 21)]
    na = [{"property_id": p, "reason": "check not built yet (in progress; see DESIGN.md section 5)"} for p in all_ids if p not in CHECKS]
    m = {
        "version": 1,
        "setup_cmd": "bin/setup",
        "hooks": {"guard": "verif", "enable": "go build -tags verif (harness/go.mod replaces github.com/weedbox/pokerface with /repo)",
                  "baseline_off_cmd": "cd /repo && GOFLAGS=-mod=mod GOPROXY=off GOSUMDB=off GOTOOLCHAIN=local go test -vet=off -count=1 ./combination/ ./pot/ ./regulator/ ./settlement/ ./testcases/",
                  "source_commits": hook_commits, "add_only": True},
        "engines": [{"name": "tla-trace-validation", "path": "/verif/bin/check",
                     "serves_properties": sorted(CHECKS),
                     "kind_free_text": "explicit TLA+ specification (spec/*.tla) model-checked by TLC and bound to the Go code by trace validation "
                                       "in both directions (harness/cmd/vdrive)"}],
        "checks": checks,
        "not_applicable": na,
        "notes": "exit codes: 0 held / 1 VIOLATION (reproduced on the real code) / 2 INCONCLUSIVE. VERIF_SEED and VERIF_TIER honoured.",
    }
    with open(os.path.join(VERIF, "MANIFEST.json"), "w") as f:
        json.dump(m, f, indent=1)
        f.write("\n")
    print("MANIFEST.json: %d checks, %d not_applicable" % (len(checks), len(na)))


if __name__ == "__main__":
    main()

"""Turning failed clauses into verdicts (DESIGN.md 1: R1, R4, R5)."""
import vlib


def judge(prop, tier, seed, viols, sig_fn, repro_fn, group_key=None):
    """viols: [{clause, src, srcline, resetline}], as returned by vlib.validate.
    A failed clause becomes VIOLATION only if the offending run fails again when replayed from
    scratch; a violation whose signature matches an OPEN entry of known_findings.json is printed
    as KNOWN-FINDING and does not fail the check.  -> (rc, number of violating steps, known hits)"""
    rc, nviol, known_hit, nrep = 0, 0, {}, 0
    unrep = []   # failing signatures that did not fail again when replayed from scratch (R1: no verdict from them)
    # a broken state invariant persists over the following steps of the same run: the first failing step
    # of a run is the one that counts (and the one whose call is named in the signature)
    first, count = {}, {}
    for v in viols:
        key = group_key(v) if group_key else (v["src"], v["resetline"], v["clause"])
        count[key] = count.get(key, 0) + 1
        if key not in first or v["srcline"] < first[key]["srcline"]:
            first[key] = v
    by_sig = {}
    # (every file is read once for all the lines needed from it: a flood of failing steps over traces of millions of lines
    # must not turn into one scan per step)
    want = {}
    for v in first.values():
        want.setdefault(v["src"], set()).add(v["srcline"])
        if v.get("resetline"):
            want[v["src"]].add(v["resetline"])
    got = {src: vlib.read_many(src, nums) for src, nums in want.items()}
    for key, v in sorted(first.items(), key=lambda kv: (kv[1]["src"], kv[1]["srcline"])):
        line = got[v["src"]].get(v["srcline"])
        rs = got[v["src"]].get(v["resetline"]) if v.get("resetline") else None
        by_sig.setdefault(sig_fn(v, line, rs), []).append((v, line, rs))
    for nsig, (sig, items) in enumerate(sorted(by_sig.items())):
        k = vlib.match_known(prop, sig)
        if rc == 1 and nrep >= 6 and not k:
            print("  (further failing signature not replayed: %s, %d runs)" % (sig, len(items)))
            continue
        v, line, rs = items[0]
        ok, desc = repro_fn(v, line, rs)
        if not ok:
            unrep.append((v["clause"], sig))
            continue
        if k:
            known_hit[sig] = len(items)
            print("KNOWN-FINDING: property=%s %s (%s; %d runs)" % (prop, k["description"], sig, len(items)))
            continue
        nviol += len(items)
        desc["signature"] = sig
        desc["property"] = prop
        path = vlib.save_replay("%s-%s-seed%d-%d.json" % (prop, tier, seed, nrep), desc)
        nrep += 1
        print("VIOLATION property=%s replay=%s" % (prop, path))
        print("  clause %s failed in %d runs; first: %s" % (v["clause"], len(items), brief(line)))
        rc = 1
    # a reproduced violation is the verdict; a failing step that does not fail again on replay decides nothing (exit 2 on its own)
    for clause, sig in unrep:
        if rc == 1:
            print("  (note: clause %s, signature %s, did not fail again when its run was replayed from scratch: not counted)" % (clause, sig))
        else:
            print("INCONCLUSIVE property=%s clause %s (signature %s) did not reproduce on replay" % (prop, clause, sig))
            rc = 2
    hit_ids = set()
    for sig in known_hit:
        k = vlib.match_known(prop, sig)
        hit_ids.add(k.get("signature"))
    for k in vlib.load_known():
        if k.get("property") == prop and k.get("status") == "open" and k.get("signature") not in hit_ids:
            print("note: known finding %s was not observed in this run" % k.get("signature"))
    return rc, nviol, known_hit


def brief(line):
    if not isinstance(line, dict):
        return str(line)[:200]
    keys = [k for k in ("op", "seat", "x", "err", "kind", "c", "f", "s", "order", "args", "res") if k in line]
    return " ".join("%s=%r" % (k, line[k]) for k in keys)[:300]

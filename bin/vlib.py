"""Shared machinery of /verif/bin/check (python3, stdlib only).

Pipeline pieces: work directory, harness build against /repo's working tree, TLC runs
(model checking, simulation, trace validation in parallel chunks), model-check cache,
known findings, evidence files.  See /verif/DESIGN.md section 4.
"""
import atexit
import concurrent.futures as cf
import hashlib
import json
import glob
import os
import re
import shutil
import subprocess
import sys
import time

VERIF = os.path.dirname(os.path.dirname(os.path.abspath(__file__)))
REPO = os.environ.get("VERIF_REPO", "/repo")
SPEC = os.path.join(VERIF, "spec")
HARNESS = os.path.join(VERIF, "harness")
CACHE = os.path.join(VERIF, ".cache")
REPLAYS = os.path.join(VERIF, "replays")
EVIDENCE = os.path.join(VERIF, "evidence")
if os.environ.get("VERIF_SCRATCH_EVIDENCE"):
    # runs against a deliberately changed tree (self-tests, seeded changes) keep their evidence out of /verif/evidence
    EVIDENCE = os.environ["VERIF_SCRATCH_EVIDENCE"]
NCPU = os.cpu_count() or 4

GOENV = dict(os.environ, GOFLAGS="-mod=mod", GOPROXY="off", GOSUMDB="off", GOTOOLCHAIN="local")


class Inconclusive(Exception):
    """Tool failure, timeout, dead driver...: exit 2, never a verdict (R4)."""


def log(*a):
    print(*a, file=sys.stderr, flush=True)


# ---------------------------------------------------------------- work directory
class Work:
    def __init__(self, tag):
        self.dir = os.path.join(VERIF, ".work", "%s-%d" % (tag, os.getpid()))
        shutil.rmtree(self.dir, ignore_errors=True)
        os.makedirs(self.dir)
        atexit.register(self.cleanup)
        self.keep = bool(os.environ.get("VERIF_KEEP"))
        self.n = 0

    def cleanup(self):
        if not self.keep:
            shutil.rmtree(self.dir, ignore_errors=True)

    def path(self, *p):
        return os.path.join(self.dir, *p)

    def sub(self, name):
        self.n += 1
        d = self.path("%s-%d" % (name, self.n))
        os.makedirs(d)
        return d


# ---------------------------------------------------------------- harness build
def build_harness(work):
    """go build -tags verif of the harness against /repo's CURRENT working tree."""
    t0 = time.time()
    gosum = os.path.join(REPO, "go.sum")
    mine = os.path.join(HARNESS, "go.sum")
    try:
        if open(gosum).read() != open(mine).read():
            shutil.copy(gosum, mine)
    except OSError:
        pass
    out = work.path("vdrive")
    cmd = ["go", "build", "-tags", "verif", "-o", out]
    if REPO != "/repo":
        # a developer convenience (VERIF_REPO=<snapshot>): build against another copy of the repository
        mf = work.path("go.mod")
        open(mf, "w").write(open(os.path.join(HARNESS, "go.mod")).read().replace("=> /repo", "=> " + REPO))
        shutil.copy(os.path.join(REPO, "go.sum"), work.path("go.sum"))
        cmd += ["-modfile", mf]
    cmd.append("./cmd/vdrive")
    p = subprocess.run(cmd, cwd=HARNESS, env=GOENV,
                       stdout=subprocess.PIPE, stderr=subprocess.STDOUT, text=True)
    if p.returncode != 0:
        raise Inconclusive("harness build failed:\n" + p.stdout[-3000:])
    log("[build] harness built in %.1fs" % (time.time() - t0))
    return out


def drive(binary, args, cwd=None, timeout=3600):
    """run a vdrive subcommand; returns the JSON summary printed on its last stdout line."""
    try:
        p = subprocess.run([binary] + [str(a) for a in args], cwd=cwd, stdout=subprocess.PIPE, stderr=subprocess.PIPE,
                           text=True, timeout=timeout)
    except subprocess.TimeoutExpired:
        raise Inconclusive("driver timeout: %s" % " ".join(map(str, args[:3])))
    if p.returncode != 0:
        raise Inconclusive("driver %s failed (%d): %s" % (args[0], p.returncode, (p.stderr or p.stdout)[-2000:]))
    lines = [x for x in p.stdout.strip().splitlines() if x.strip()]
    try:
        return json.loads(lines[-1]) if lines else {}
    except ValueError:
        return {"raw": p.stdout[-500:]}


# ---------------------------------------------------------------- TLC
def repo_tests_trace(work, binary, out, only=None, runbase=8000000, timeout=900, scripts=None):
    """the repository's OWN scenario tests (testcases/*_test.go of /repo's current working tree) run against the real
    engine with every game wrapped by harness/vrec; the recorded calls are projected by `vdrive holdem-convert`.
    A test that FAILS is the repository's business, not a verdict: only what the engine did is looked at."""
    d = work.sub("repotests" + ("-" + re.sub(r"\W", "", only) if only else ""))
    td = os.path.join(d, "testcases")
    os.makedirs(td, exist_ok=True)
    gm = re.sub(r"^module .*$", "module repotests", open(os.path.join(REPO, "go.mod")).read(), count=1, flags=re.M)
    gm += "\nrequire github.com/weedbox/pokerface v0.0.0\nrequire vdrive v0.0.0\nreplace github.com/weedbox/pokerface => %s\nreplace vdrive => %s\n" % (REPO, HARNESS)
    open(os.path.join(d, "go.mod"), "w").write(gm)
    shutil.copy(os.path.join(REPO, "go.sum"), os.path.join(d, "go.sum"))
    n = 0
    for f in sorted(glob.glob(os.path.join(REPO, "testcases", "*_test.go"))):
        if os.path.basename(f).startswith("zz_"):
            continue
        src = open(f).read()
        if "pokerface.NewPokerFace()" in src:
            src = src.replace("pokerface.NewPokerFace()", "vrec.NewPokerFace()")
            src = src.replace('"github.com/weedbox/pokerface"\n', '"github.com/weedbox/pokerface"\n\t"vdrive/vrec"\n', 1)
            n += 1
        open(os.path.join(td, os.path.basename(f)), "w").write(src)
    raw = os.path.join(d, "raw.ndjson")
    if os.path.exists(raw):
        os.remove(raw)
    cmd = ["go", "test", "-tags", "verif", "-vet=off", "-count=1", "./testcases/"]
    if only:
        cmd[5:5] = ["-run", "^%s$" % only]
    try:
        p = subprocess.run(cmd, cwd=d, env=dict(GOENV, VERIF_RAW_OUT=raw), stdout=subprocess.PIPE, stderr=subprocess.STDOUT, text=True, timeout=timeout)
    except subprocess.TimeoutExpired:
        raise Inconclusive("the repository's scenario tests did not finish in %ds" % timeout)
    if not os.path.exists(raw) or os.path.getsize(raw) == 0:
        if "[build failed]" in p.stdout or "cannot find" in p.stdout or "undefined" in p.stdout:
            # the tests of a changed tree may not compile against the wrapper (e.g. an interface that grew): no trace, no verdict
            log("[repotests] not built: " + p.stdout[-400:].replace("\n", " | "))
            return dict(runs=0, steps=0, lines=0, tests=[], built=False, test_files=n)
        raise Inconclusive("the repository's scenario tests recorded nothing:\n" + p.stdout[-1500:])
    st = drive(binary, ["holdem-convert", "-in", raw, "-o", out, "-runbase", runbase] + (["-scripts", scripts] if scripts else []))
    st["built"] = True
    st["test_files"] = n
    st["go_test_ok"] = p.returncode == 0
    os.remove(raw)
    return st


def spec_copy(dst):
    for f in os.listdir(SPEC):
        if f.endswith(".tla") or f.endswith(".cfg"):
            shutil.copy(os.path.join(SPEC, f), dst)


def tlc(cwd, module, cfg, workers=1, timeout=900, extra=(), java_opts=None, heap=None):
    """run TLC in cwd (which holds copies of the specs); returns (returncode, stdout)."""
    env = dict(os.environ)
    jo = java_opts or "-XX:+UseParallelGC -XX:ParallelGCThreads=%d" % max(2, min(8, workers))
    if heap:
        jo += " -Xmx%s" % heap
    # TLC unpacks its standard modules into java.io.tmpdir on every run: keep that inside the run's scratch directory
    jtmp = os.path.join(cwd, "jtmp")
    os.makedirs(jtmp, exist_ok=True)
    env["JAVA_TOOL_OPTIONS"] = (env.get("JAVA_TOOL_OPTIONS", "") + " " + jo + " -Xss256m -Djava.io.tmpdir=" + jtmp).strip()
    meta = os.path.join(cwd, "meta-%s-%d" % (cfg.replace(".cfg", ""), int(time.time() * 1000) % 1000000))
    cmd = ["timeout", str(timeout), "tlc", "-workers", str(workers), "-metadir", meta, "-config", cfg] + list(extra) + [module]
    p = subprocess.run(cmd, cwd=cwd, env=env, stdout=subprocess.PIPE, stderr=subprocess.STDOUT, text=True, errors="replace")
    shutil.rmtree(meta, ignore_errors=True)
    return p.returncode, p.stdout


def write_cfg(path, spec="Spec", constants=None, invariants=(), properties=(), view=None, constraint=None,
              deadlock=False, extra_lines=()):
    with open(path, "w") as f:
        f.write("SPECIFICATION %s\n" % spec)
        if constants:
            f.write("CONSTANTS\n")
            for k, v in constants.items():
                f.write("  %s\n" % (v if v.startswith(k + " ") else "%s = %s" % (k, v)))
        if invariants:
            f.write("INVARIANTS %s\n" % " ".join(invariants))
        if properties:
            f.write("PROPERTIES %s\n" % " ".join(properties))
        if view:
            f.write("VIEW %s\n" % view)
        if constraint:
            f.write("CONSTRAINT %s\n" % constraint)
        for x in extra_lines:
            f.write(x + "\n")
        f.write("CHECK_DEADLOCK %s\n" % ("TRUE" if deadlock else "FALSE"))


def tla_set(xs):
    return "{" + ", ".join('"%s"' % x if isinstance(x, str) else str(x) for x in xs) + "}"


MC_RE = re.compile(r"(\d+) states generated, (\d+) distinct states found")


def parse_mc(out):
    """-> dict(ok, generated, distinct, violated, error)"""
    r = {"ok": False, "generated": 0, "distinct": 0, "violated": None, "error": None}
    m = None
    for m in MC_RE.finditer(out):
        pass
    if m:
        r["generated"], r["distinct"] = int(m.group(1)), int(m.group(2))
    if "Model checking completed. No error has been found." in out:
        r["ok"] = True
        return r
    mv = re.search(r"Invariant (\S+) is violated", out) or re.search(r"Action property (\S+) is violated", out) \
        or re.search(r"Temporal properties were violated", out)
    if mv:
        r["violated"] = mv.group(1) if mv.groups() else "temporal"
        return r
    r["error"] = out[-3000:]
    return r


def spec_hash(extra=""):
    h = hashlib.sha256()
    for f in sorted(os.listdir(SPEC)):
        if f.endswith(".tla"):
            h.update(f.encode())
            h.update(open(os.path.join(SPEC, f), "rb").read())
    h.update(extra.encode())
    return h.hexdigest()[:24]


def cached(key, compute, use_cache=True):
    """model-level results do not depend on /repo: cache them by the hash of spec + config."""
    os.makedirs(CACHE, exist_ok=True)
    p = os.path.join(CACHE, key + ".json")
    if use_cache and os.path.exists(p) and not os.environ.get("VERIF_NOCACHE"):
        try:
            r = json.load(open(p))
            r["cached"] = True
            return r
        except ValueError:
            pass
    r = compute()
    r["cached"] = False
    tmp = p + ".%d" % os.getpid()
    json.dump(r, open(tmp, "w"))
    os.replace(tmp, p)
    return r


# ---------------------------------------------------------------- trace validation
RESULT_RE = re.compile(r'^<<"RESULT", "(.*)">>\s*$', re.M)


def parse_result(out):
    m = None
    for m in RESULT_RE.finditer(out):
        pass
    if not m:
        return None
    s = m.group(1).encode().decode("unicode_escape")
    return json.loads(s)


def split_trace(files, nchunks, outdir, reset_key='"kind":"reset"', prefix="chunk", independent=False):
    """split NDJSON trace files into <= nchunks files at run boundaries (reset lines).
    returns list of (chunkfile, [(srcfile, first line number (1-based) in src, count)])"""
    groups = []  # (src, startline, [lines])
    for src in files:
        cur, start = None, 0
        with open(src) as f:
            for ln, line in enumerate(f, 1):
                if independent or reset_key in line:
                    if cur:
                        groups.append((src, start, cur))
                    cur, start = [], ln
                if cur is None:
                    cur, start = [], ln
                cur.append(line)
        if cur:
            groups.append((src, start, cur))
    total = sum(len(g[2]) for g in groups)
    if total == 0:
        return []
    target = max(1, (total + nchunks - 1) // nchunks)
    chunks, cur, curmap, n = [], [], [], 0
    for src, start, lines in groups:
        if n >= target and cur:
            chunks.append((cur, curmap))
            cur, curmap, n = [], [], 0
        curmap.append((src, start, len(lines)))
        cur.extend(lines)
        n += len(lines)
    if cur:
        chunks.append((cur, curmap))
    res = []
    for k, (lines, cmap) in enumerate(chunks):
        p = os.path.join(outdir, "%s%d.ndjson" % (prefix, k))
        with open(p, "w") as f:
            f.writelines(lines)
        res.append((p, cmap))
    return res


def locate(cmap, line):
    """chunk line number (1-based) -> (srcfile, src line number, src line of the group's reset line)"""
    off = 0
    for src, start, cnt in cmap:
        if line <= off + cnt:
            return src, start + (line - off - 1), start
        off += cnt
    return None, None, None


def validate(work, files, module, props, constants=None, timeout=1800, maxviol=40, nchunks=None, heap=None, independent=False, jobs=None):
    """run the trace specification `module` over the NDJSON files, in parallel chunks.
    returns dict(lines, viol=[{clause, chunk, line, src, srcline, resetline}], drift=[...], cnt={...})"""
    d = work.sub("val")
    spec_copy(d)
    nchunks = nchunks or NCPU
    chunks = split_trace(files, nchunks, d, independent=independent)
    agg = {"lines": 0, "viol": [], "drift": [], "cnt": {}, "chunks": len(chunks), "tlc_s": 0.0}
    if not chunks:
        return agg

    def one(k):
        path, cmap = chunks[k]
        with open(path) as f:
            nlines = sum(1 for _ in f)
        if nlines <= 1 and not independent:
            # a single (reset) line: no step to judge - the trace specification would stop at its initial state
            return k, {"lines": nlines, "viol": [], "drift": [], "cnt": {}}, 0.0
        cfg = "val%d.cfg" % k
        consts = {"TraceFile": '"%s"' % os.path.basename(path), "Props": tla_set(props), "MaxViol": str(maxviol)}
        consts.update(constants or {})
        write_cfg(os.path.join(d, cfg), constants=consts)
        t0 = time.time()
        rc, out = tlc(d, module, cfg, workers=1, timeout=timeout, heap=heap,
                      java_opts="-XX:+UseParallelGC -XX:ParallelGCThreads=2")
        res = parse_result(out)
        if res is None or "No error has been found" not in out:
            i = out.find("Error:")
            head = out[i:i + 900] if i >= 0 else ""
            raise Inconclusive("trace validation failed (chunk %d, rc %d):\n%s\n...\n%s" % (k, rc, head, out[-700:]))
        return k, res, time.time() - t0

    t0 = time.time()
    with cf.ThreadPoolExecutor(max_workers=min(jobs or max(4, NCPU // 2), len(chunks))) as ex:
        for k, res, dt in ex.map(one, range(len(chunks))):
            path, cmap = chunks[k]
            agg["lines"] += res["lines"]
            for key, v in (res.get("cnt") or {}).items():
                agg["cnt"][key] = agg["cnt"].get(key, 0) + v
            for line, clause in res.get("viol") or []:
                src, srcline, resetline = locate(cmap, line)
                agg["viol"].append({"clause": clause, "chunk": path, "line": line, "src": src, "srcline": srcline,
                                    "resetline": resetline})
            for line in res.get("drift") or []:
                src, srcline, resetline = locate(cmap, line)
                agg["drift"].append({"chunk": path, "line": line, "src": src, "srcline": srcline, "resetline": resetline})
    agg["tlc_s"] = round(time.time() - t0, 1)
    return agg


def read_line(path, n):
    with open(path) as f:
        for i, line in enumerate(f, 1):
            if i == n:
                return json.loads(line)
    return None


def read_many(path, nums):
    """the JSON lines with the given 1-based numbers, in one pass"""
    res, last = {}, max(nums) if nums else 0
    with open(path) as f:
        for i, line in enumerate(f, 1):
            if i in nums:
                res[i] = json.loads(line)
            if i >= last:
                break
    return res


def find_script(path, run):
    """the script of run `run` in an NDJSON script file (only candidate lines are parsed)"""
    needles = ('"run":%d' % run, '"run": %d' % run)
    with open(path) as f:
        for raw in f:
            if needles[0] in raw or needles[1] in raw:
                try:
                    s = json.loads(raw)
                except ValueError:
                    continue
                if s.get("run") == run:
                    return s
    return None


def read_lines(path, a, b):
    res = []
    with open(path) as f:
        for i, line in enumerate(f, 1):
            if i > b:
                break
            if i >= a:
                res.append(json.loads(line))
    return res


# ---------------------------------------------------------------- known findings
def load_known():
    p = os.path.join(VERIF, "known_findings.json")
    try:
        return json.load(open(p))["findings"]
    except (OSError, ValueError, KeyError):
        return []


def match_known(prop, signature):
    """an OPEN finding whose signature equals (or is a declared prefix of) the violation's signature"""
    for k in load_known():
        if k.get("property") != prop or k.get("status") != "open":
            continue
        sig = k.get("signature", "")
        if signature == sig or (sig.endswith("*") and signature.startswith(sig[:-1])):
            return k
    return None


# ---------------------------------------------------------------- evidence
def write_evidence(prop, tier, seed, coverage, wall, violations, level="model_checking", assumptions=()):
    os.makedirs(EVIDENCE, exist_ok=True)
    ev = {"property_id": prop, "tier": tier, "seed": int(seed), "level": level, "coverage": coverage,
          "assumptions": list(assumptions), "wall_s": round(wall, 2), "violations": int(violations)}
    p = os.path.join(EVIDENCE, prop + ".json")
    tmp = p + ".tmp%d" % os.getpid()
    with open(tmp, "w") as f:
        json.dump(ev, f, indent=1, sort_keys=True)
        f.write("\n")
    os.replace(tmp, p)
    return p


def save_replay(name, obj):
    os.makedirs(REPLAYS, exist_ok=True)
    p = os.path.join(REPLAYS, name)
    with open(p, "w") as f:
        json.dump(obj, f, indent=1)
        f.write("\n")
    return p


def tlaps_proof(work, module):
    """re-establish a TLAPS proof (a statement about the MODEL for all values of its constants); environmental trouble is a note, never a verdict"""
    import re
    import subprocess
    d = work.sub("tlaps")
    spec_copy(d)
    t0 = time.time()
    out, m = "", None
    # the back-end provers run under per-obligation timeouts: on a loaded machine an obligation can time out, so the
    # timeouts are stretched, and a second pass (which only re-tries what failed: proved obligations are fingerprinted) stretches them further
    for stretch in ("3", "12"):
        p = None
        try:
            # own process group: the back-end provers (z3, zenon, isabelle) are grandchildren and must not outlive the run
            p = subprocess.Popen(["tlapm", "--threads", str(max(2, NCPU // 2)), "--stretch", stretch, module], cwd=d, stdout=subprocess.PIPE,
                                 stderr=subprocess.STDOUT, text=True, start_new_session=True)
            out, _ = p.communicate(timeout=900)
        except Exception as e:  # missing tool, timeout
            out = "tlapm did not run: %s" % e
        finally:
            if p is not None:
                try:
                    os.killpg(p.pid, 9)
                except OSError:
                    pass
                try:
                    p.wait(timeout=10)
                except Exception:
                    pass
        m = re.search(r"All (\d+) obligations? proved", out)
        if m:
            break
    r = dict(module=module, obligations_proved=int(m.group(1)) if m else 0, all_proved=bool(m), wall_s=round(time.time() - t0, 1))
    if not m:
        f = re.search(r"(\d+)/(\d+) obligations failed", out)
        r["failed"] = f.group(0) if f else out[-300:]
        print("MODEL-NOTE: the TLAPS proof %s was not re-established (%s): a statement about the model, not a verdict" % (module, r["failed"]))
    log("[tlaps] %s: %s obligations proved (%.0fs)" % (module, r["obligations_proved"] if m else "NOT all", r["wall_s"]))
    return r

"""Checks of the non-engine properties: C02 C16 (pots/settlement), C03 C10 (evaluator),
C08 C17 C18 (seat manager), C09 C19 C20 (regulator), C07 C15 (resume / views)."""
import json
import os
import time

import engine_checks as ec
import verdict
import vlib
from vlib import Inconclusive, log

REGISTRY = {}


def generic_mc(work, module, name, constants, invariants=(), properties=(), spec="Spec", view=None, timeout=1800, constraint=None):
    d = work.sub("mc")
    vlib.spec_copy(d)
    cfg = name + ".cfg"
    vlib.write_cfg(os.path.join(d, cfg), spec=spec, constants=constants, invariants=invariants, properties=properties, view=view,
                   constraint=constraint)
    t0 = time.time()
    rc, out = vlib.tlc(d, module, cfg, workers=vlib.NCPU, timeout=timeout)
    r = vlib.parse_mc(out)
    r["wall_s"] = round(time.time() - t0, 1)
    r["scope"] = dict(constants, module=module, invariants=list(invariants), properties=list(properties))
    r["cached"] = False
    if not r["ok"] and not r["violated"]:
        raise Inconclusive("model checking %s failed: %s" % (name, (r["error"] or "")[-1500:]))
    if r["violated"]:
        r["trace_tail"] = out[-5000:]
    log("[mc] %s: %d distinct / %d generated, ok=%s (%.0fs)" % (name, r["distinct"], r["generated"], r["ok"], r["wall_s"]))
    return r


def mc_summary(mcs):
    return [{"scope": m["scope"], "distinct_states": m["distinct"], "generated": m["generated"], "holds_in_model": m["ok"],
             "violated": m.get("violated"), "wall_s": m.get("wall_s")} for m in mcs]


# ------------------------------------------------------------------ C02 / C16
POT_TIER = {
    "quick": dict(mc=[dict(NPs="{2,3,4}", MaxC="3", MaxS="2")], enum=dict(n="2,3,4", cmax=3, smax=2, random=400), engine_runs=500, fork_runs=0),
    "thorough": dict(mc=[dict(NPs="{2,3,4}", MaxC="4", MaxS="3"), dict(NPs="{5}", MaxC="3", MaxS="2"), dict(NPs="{6}", MaxC="2", MaxS="2")],
                     enum=dict(n="2,3,4,5", cmax=3, smax=2, random=20000), engine_runs=8000, fork_runs=300),
}


def pots_check(prop, tier, seed, work, replay):
    t0 = time.time()
    T = POT_TIER[tier]
    binary = vlib.build_harness(work)
    if replay:
        desc = json.load(open(replay))
        if desc.get("kind") in ("script", "explore"):
            return ec.run_replay_file(prop, work, binary, replay)
        d = work.sub("replay")
        inp = os.path.join(d, "in.ndjson")
        open(inp, "w").write(json.dumps(desc["input"]) + "\n")
        out = os.path.join(d, "out.ndjson")
        vlib.drive(binary, ["pots-one", "-in", inp, "-o", out])
        r = vlib.validate(work, [out], "PotTrace.tla", [prop], nchunks=1, heap="2g", independent=True)
        if r["viol"]:
            print("VIOLATION property=%s replay=%s" % (prop, replay))
            return 1
        print("replay of %s: no clause of %s fails" % (replay, prop))
        return 0

    inv = "C16Holds" if prop == "C16" else "C02Holds"
    mcs = [generic_mc(work, "MCPots.tla", "mcpots%d" % i, sc, invariants=[inv]) for i, sc in enumerate(T["mc"])]
    for m in mcs:
        if not m["ok"]:
            print("MODEL-NOTE: %s violated in the MODEL (%s): not a verdict (R1)" % (prop, m["violated"]))

    # package level: every vector of the scope (every insertion order up to 4 players) + seeded random ones
    d = work.sub("pots")
    pfile = os.path.join(d, "pots.ndjson")
    e = T["enum"]
    pst = vlib.drive(binary, ["pots-enum", "-n", e["n"], "-cmax", e["cmax"], "-smax", e["smax"], "-random", e["random"], "-seed", seed,
                              "-o", pfile, "-what", "pots,settle" if prop == "C02" else "pots"], timeout=3600)
    pres = vlib.validate(work, [pfile], "PotTrace.tla", [prop], nchunks=max(4, vlib.NCPU // 2), heap="3g", independent=True)
    log("[val] package level: %d lines, %d failed clauses, %d drift, %.0fs" % (pres["lines"], len(pres["viol"]), len(pres["drift"]), pres["tlc_s"]))

    # engine level: the pots / results real play publishes
    dr = ec.Drive(work, binary)
    dr.random("random", T["engine_runs"], seed * 1000 + 5, [], runbase=0)
    dr.explore("explore", ec.CMP_SCOPE)
    simfile = os.path.join(dr.d, "sim.scripts")
    nsim = ec.sim_scripts(work, 150 if tier == "quick" else 2000, seed, simfile, 5000000)
    dr.replay("sim", simfile, finish=True, seed=seed)
    eres = vlib.validate(work, sorted(dr.files), "HoldemTrace.tla", [prop], nchunks=max(4, vlib.NCPU // 2), heap="3g")
    log("[val] engine level: %d lines, %d failed clauses, %d drift, %.0fs" % (eres["lines"], len(eres["viol"]), len(eres["drift"]), eres["tlc_s"]))

    def sig(v, line, rs):
        if "state" in (line or {}):
            return v["clause"] + "|engine"
        return v["clause"] + "|package|n=%s" % (line or {}).get("n")

    def repro(v, line, rs):
        if "state" in (line or {}):
            return ec.reproduce(prop, work, binary, v, dr.files[v["src"]], line, rs)
        dd = work.sub("repro")
        inp = os.path.join(dd, "in.ndjson")
        open(inp, "w").write(json.dumps(line) + "\n")
        out = os.path.join(dd, "out.ndjson")
        vlib.drive(binary, ["pots-one", "-in", inp, "-o", out])
        r = vlib.validate(work, [out], "PotTrace.tla", [prop], nchunks=1, heap="2g", independent=True)
        again = [x for x in r["viol"] if x["clause"] == v["clause"]]
        return bool(again), dict(kind="pots", clause=v["clause"], input={k: line[k] for k in ("kind", "c", "f", "s", "order") if k in line},
                                 observed={k: line[k] for k in ("pots", "chg") if k in line})

    viols = pres["viol"] + eres["viol"]
    rc, nviol, known_hit = verdict.judge(prop, tier, seed, viols, sig, repro,
                                         group_key=lambda v: (v["src"], v["srcline"] if v["src"] == pfile else v["resetline"], v["clause"]))
    drift = len(pres["drift"]) + len(eres["drift"])
    if drift:
        print("MODEL-DRIFT: %d recorded calls/steps are not reproduced by the precise model; not a verdict" % drift)
    samples = [x for x in vlib.read_lines(pfile, 1, 40000) if x["n"] >= 3][-3:]
    cnt = dict(pres["cnt"])
    closed = eres["cnt"].get("C01.result", 0)
    cnt.update({"engine.GameClosed": closed, "engine.RoundClosed": eres["cnt"].get("C01.pots", 0)})
    coverage = {
        "states": sum(m["distinct"] for m in mcs), "transitions": sum(m["generated"] for m in mcs),
        "traces_validated_against_impl": int(pres["lines"] + eres["cnt"].get("runs", 0)),
        "samples": samples,
        "model_checking": mc_summary(mcs),
        "package_level": {"inputs": pst.get("inputs"), "calls_validated": pres["lines"], "exhaustive_scope": e,
                          "note": "every contribution/fold%s vector of the scope, every insertion order up to 4 players" % ("/strength" if prop == "C02" else "")},
        "engine_level": {"steps_validated": eres["lines"], "hands_closed": closed, "tlc_scripts": nsim},
        "antecedents_exercised_on_real_code": cnt,
        "model_drift_lines": drift, "known_findings_hit": known_hit,
        "failed_clauses": sorted({v["clause"] for v in viols}),
        "exhaustive": False,
    }
    vlib.write_evidence(prop, tier, seed, coverage, time.time() - t0, nviol,
                        assumptions=["harness projections drv_pots.go / proj_holdem.go", "TLC + CommunityModules Json",
                                     "strength 0 is reserved for folded players (as the engine does)"])
    need = ["settle.tie", "settle.mergedLevels", "settle.foldedContribution"] if prop == "C02" else ["pots.merged", "pots.threeOrMore"]
    missing = [a for a in need if cnt.get(a, 0) == 0] + ([] if closed else ["engine.GameClosed"])
    if rc == 0 and missing:
        print("INCONCLUSIVE property=%s never exercised: %s" % (prop, ",".join(missing)))
        return 2
    return rc


REGISTRY["C02"] = pots_check
REGISTRY["C16"] = pots_check

"""Checks of the non-engine properties: C02 C16 (pots/settlement), C03 C10 (evaluator),
C08 C17 C18 (seat manager), C09 C19 C20 (regulator), C07 C15 (resume / views)."""
import json
import os
import time

import engine_checks as ec
import verdict
import vlib
from vlib import Inconclusive, log

REGISTRY = {}


def generic_mc(work, module, name, constants, invariants=(), properties=(), spec="Spec", view=None, timeout=1800, constraint=None):
    d = work.sub("mc")
    vlib.spec_copy(d)
    cfg = name + ".cfg"
    vlib.write_cfg(os.path.join(d, cfg), spec=spec, constants=constants, invariants=invariants, properties=properties, view=view,
                   constraint=constraint)
    t0 = time.time()
    rc, out = vlib.tlc(d, module, cfg, workers=vlib.NCPU, timeout=timeout)
    r = vlib.parse_mc(out)
    r["wall_s"] = round(time.time() - t0, 1)
    r["scope"] = dict(constants, module=module, invariants=list(invariants), properties=list(properties))
    r["cached"] = False
    if not r["ok"] and not r["violated"]:
        raise Inconclusive("model checking %s failed: %s" % (name, (r["error"] or "")[-1500:]))
    if r["violated"]:
        r["trace_tail"] = out[-5000:]
    log("[mc] %s: %d distinct / %d generated, ok=%s (%.0fs)" % (name, r["distinct"], r["generated"], r["ok"], r["wall_s"]))
    return r


tlaps_proof = vlib.tlaps_proof


def mc_summary(mcs):
    return [{"scope": m["scope"], "distinct_states": m["distinct"], "generated": m["generated"], "holds_in_model": m["ok"],
             "violated": m.get("violated"), "wall_s": m.get("wall_s")} for m in mcs]


# ------------------------------------------------------------------ C02 / C16
POT_TIER = {
    "quick": dict(mc=[dict(NPs="{2,3,4}", MaxC="3", MaxS="2")], enum=dict(n="2,3,4", cmax=3, smax=2, random=1500), engine_runs=500, fork_runs=0),
    "thorough": dict(mc=[dict(NPs="{2,3,4}", MaxC="4", MaxS="3"), dict(NPs="{5}", MaxC="3", MaxS="2"), dict(NPs="{6}", MaxC="2", MaxS="2")],
                     enum=dict(n="2,3,4,5", cmax=3, smax=2, random=20000), engine_runs=4000, fork_runs=300),
}


def pots_check(prop, tier, seed, work, replay):
    t0 = time.time()
    T = POT_TIER[tier]
    binary = vlib.build_harness(work)
    if replay:
        desc = json.load(open(replay))
        if desc.get("kind") in ("script", "explore"):
            return ec.run_replay_file(prop, work, binary, replay)
        d = work.sub("replay")
        inp = os.path.join(d, "in.ndjson")
        open(inp, "w").write(json.dumps(desc["input"]) + "\n")
        out = os.path.join(d, "out.ndjson")
        vlib.drive(binary, ["pots-one", "-in", inp, "-o", out])
        r = vlib.validate(work, [out], "PotTrace.tla", [prop], nchunks=1, heap="2g", independent=True)
        if r["viol"]:
            print("VIOLATION property=%s replay=%s" % (prop, replay))
            return 1
        print("replay of %s: no clause of %s fails" % (replay, prop))
        return 0

    inv = "C16Holds" if prop == "C16" else "C02Holds"
    mcs = [generic_mc(work, "MCPots.tla", "mcpots%d" % i, sc, invariants=[inv]) for i, sc in enumerate(T["mc"])]
    for m in mcs:
        if not m["ok"]:
            print("MODEL-NOTE: %s violated in the MODEL (%s): not a verdict (R1)" % (prop, m["violated"]))

    # package level: every vector of the scope (every insertion order up to 4 players) + seeded random ones
    d = work.sub("pots")
    pfile = os.path.join(d, "pots.ndjson")
    e = T["enum"]
    pst = vlib.drive(binary, ["pots-enum", "-n", e["n"], "-cmax", e["cmax"], "-smax", e["smax"], "-random", e["random"], "-seed", seed,
                              "-ties", 6 if tier == "quick" else 9, "-scale",
                              "-o", pfile, "-what", "pots,settle" if prop == "C02" else "pots"], timeout=3600)
    pres = vlib.validate(work, [pfile], "PotTrace.tla", [prop], nchunks=max(4, vlib.NCPU // 2), heap="3g", independent=True)
    log("[val] package level: %d lines, %d failed clauses, %d drift, %.0fs" % (pres["lines"], len(pres["viol"]), len(pres["drift"]), pres["tlc_s"]))

    # engine level: the pots / results real play publishes
    dr = ec.Drive(work, binary)
    dr.random("random", T["engine_runs"], seed * 1000 + 5, [], runbase=0)
    dr.explore("explore", ec.CMP_SCOPE)
    simfile = os.path.join(dr.d, "sim.scripts")
    nsim = ec.sim_scripts(work, 150 if tier == "quick" else 1000, seed, simfile, 5000000)
    dr.replay("sim", simfile, finish=True, seed=seed)
    dr.repotests()
    eres = vlib.validate(work, sorted(dr.files), "HoldemTrace.tla", [prop], nchunks=max(4, vlib.NCPU // 2), heap="3g")
    log("[val] engine level: %d lines, %d failed clauses, %d drift, %.0fs" % (eres["lines"], len(eres["viol"]), len(eres["drift"]), eres["tlc_s"]))

    def sig(v, line, rs):
        if "state" in (line or {}):
            return v["clause"] + "|engine"
        return v["clause"] + "|package|n=%s" % (line or {}).get("n")

    def repro(v, line, rs):
        if "state" in (line or {}):
            return ec.reproduce(prop, work, binary, v, dr.files[v["src"]], line, rs)
        dd = work.sub("repro")
        inp = os.path.join(dd, "in.ndjson")
        open(inp, "w").write(json.dumps(line) + "\n")
        out = os.path.join(dd, "out.ndjson")
        vlib.drive(binary, ["pots-one", "-in", inp, "-o", out])
        r = vlib.validate(work, [out], "PotTrace.tla", [prop], nchunks=1, heap="2g", independent=True)
        again = [x for x in r["viol"] if x["clause"] == v["clause"]]
        return bool(again), dict(kind="pots", clause=v["clause"], input={k: line[k] for k in ("kind", "c", "f", "s", "order", "scaled") if k in line},
                                 observed={k: line[k] for k in ("pots", "chg") if k in line})

    viols = pres["viol"] + eres["viol"]
    rc, nviol, known_hit = verdict.judge(prop, tier, seed, viols, sig, repro,
                                         group_key=lambda v: (v["src"], v["srcline"] if v["src"] == pfile else v["resetline"], v["clause"]))
    drift = len(pres["drift"]) + len(eres["drift"])
    if drift:
        print("MODEL-DRIFT: %d recorded calls/steps are not reproduced by the precise model; not a verdict" % drift)
    samples = [x for x in vlib.read_lines(pfile, 1, 40000) if x["n"] >= 3][-3:]
    cnt = dict(pres["cnt"])
    closed = eres["cnt"].get("C01.result", 0)
    cnt.update({"engine.GameClosed": closed, "engine.RoundClosed": eres["cnt"].get("C01.pots", 0)})
    coverage = {
        "states": sum(m["distinct"] for m in mcs), "transitions": sum(m["generated"] for m in mcs),
        "traces_validated_against_impl": int(pres["lines"] + eres["cnt"].get("runs", 0)),
        "samples": samples,
        "model_checking": mc_summary(mcs),
        "package_level": {"inputs": pst.get("inputs"), "calls_validated": pres["lines"], "exhaustive_scope": e,
                          "note": "every contribution/fold%s vector of the scope, every insertion order up to 4 players" % ("/strength" if prop == "C02" else "")},
        "engine_level": {"steps_validated": eres["lines"], "hands_closed": closed, "tlc_scripts": nsim},
        "antecedents_exercised_on_real_code": cnt,
        "model_drift_lines": drift, "known_findings_hit": known_hit,
        "failed_clauses": sorted({v["clause"] for v in viols}),
        "exhaustive": False,
    }
    vlib.write_evidence(prop, tier, seed, coverage, time.time() - t0, nviol,
                        assumptions=["harness projections drv_pots.go / proj_holdem.go", "TLC + CommunityModules Json",
                                     "strength 0 is reserved for folded players (as the engine does)"])
    need = ["settle.tie", "settle.mergedLevels", "settle.foldedContribution"] if prop == "C02" else ["pots.merged", "pots.threeOrMore"]
    missing = [a for a in need if cnt.get(a, 0) == 0] + ([] if closed else ["engine.GameClosed"])
    if rc == 0 and missing:
        print("INCONCLUSIVE property=%s never exercised: %s" % (prop, ",".join(missing)))
        return 2
    return rc


REGISTRY["C02"] = pots_check
REGISTRY["C16"] = pots_check


# ------------------------------------------------------------------ C03
def split_rank_table(path, outdir, nchunks):
    """chunks of the score-sorted class table; the first line of a chunk repeats (carry) the last one before it"""
    lines = open(path).read().splitlines()
    per = max(200, (len(lines) + nchunks - 1) // nchunks)
    files, maps = [], []
    for k, a in enumerate(range(0, len(lines), per)):
        chunk = lines[a:a + per]
        first = a
        if a > 0:
            prev = json.loads(lines[a - 1])
            prev["carry"] = True
            chunk = [json.dumps(prev)] + chunk
            first = a - 1
        p = os.path.join(outdir, "rank%d.ndjson" % k)
        open(p, "w").write("\n".join(chunk) + "\n")
        files.append(p)
        maps.append(first)
    return files, maps


def rank_check(prop, tier, seed, work, replay):
    t0 = time.time()
    binary = vlib.build_harness(work)
    orders = 2 if tier == "quick" else 12
    ranksets = ["{2,3,4,5,6,14}"] if tier == "quick" else ["{2,3,4,5,6,14}", "{6,7,8,9,10,11,12,13,14}"]
    mcs = [generic_mc(work, "MCRank.tla", "mcrank%d" % i, dict(RankSet=rs, Tables='{"standard","short"}'), invariants=["Iso"], timeout=3600)
           for i, rs in enumerate(ranksets)]
    for m in mcs:
        if not m["ok"]:
            print("MODEL-NOTE: Score is not order-isomorphic to RefKey in the MODEL (%s): not a verdict" % m["violated"])

    def run_table(tag):
        d = work.sub(tag)
        table = os.path.join(d, "ranktable.ndjson")
        st = vlib.drive(binary, ["rank-table", "-o", table, "-orders", orders, "-seed", seed], timeout=3600)
        files, _ = split_rank_table(table, d, max(4, vlib.NCPU // 2))
        # every chunk is one TLC run; chunks are independent files
        res = {"lines": 0, "viol": [], "drift": [], "cnt": {}, "tlc_s": 0}
        import concurrent.futures as cf

        def one(f):
            return vlib.validate(work, [f], "RankTrace.tla", [prop], nchunks=1, heap="2g", independent=False)
        with cf.ThreadPoolExecutor(max_workers=max(4, vlib.NCPU // 2)) as ex:
            for f, r in zip(files, ex.map(one, files)):
                res["lines"] += r["lines"]
                for v in r["viol"]:
                    v["src"] = f
                    v["srcline"] = v["line"]
                    v["resetline"] = None
                res["viol"] += r["viol"]
                res["drift"] += r["drift"]
                for k, c in r["cnt"].items():
                    res["cnt"][k] = res["cnt"].get(k, 0) + c
        return st, res, table

    st, res, table = run_table("rank")
    log("[val] %d class lines, %d failed clauses, %d drift" % (res["lines"], len(res["viol"]), len(res["drift"])))
    if replay:
        if res["viol"]:
            print("VIOLATION property=%s replay=%s" % (prop, replay))
            return 1
        print("replay: the evaluator's complete table satisfies C03")
        return 0

    def sig(v, line, rs):
        return "%s|deck=%s|table=%s" % (v["clause"], (line or {}).get("deck"), (line or {}).get("table"))

    def repro(v, line, rs):
        st2, res2, _ = run_table("rerun")
        again = [x for x in res2["viol"] if x["clause"] == v["clause"]]
        return bool(again), dict(kind="rank-table", clause=v["clause"], failing_class=line,
                                 note="replay re-enumerates the evaluator's complete table")
    rc, nviol, known_hit = verdict.judge(prop, tier, seed, res["viol"], sig, repro, group_key=lambda v: (v["src"], v["srcline"], v["clause"]))
    if res["drift"]:
        print("MODEL-DRIFT: %d classes whose score differs from HandRank.Score; not a verdict" % len(res["drift"]))
    sample = [json.loads(x) for x in open(table).read().splitlines()[5000:5003]]
    coverage = {
        "states": sum(m["distinct"] for m in mcs), "transitions": sum(m["generated"] for m in mcs),
        "traces_validated_against_impl": 4,
        "samples": sample,
        "model_checking": mc_summary(mcs),
        "evaluations": st.get("evaluations"), "classes": st.get("classes"),
        "card_orders_per_hand": orders,
        "class_lines_validated": res["lines"], "antecedents_exercised_on_real_code": res["cnt"],
        "model_drift_lines": len(res["drift"]), "failed_clauses": sorted({v["clause"] for v in res["viol"]}),
        "exhaustive": True,
        "explanation": "all C(52,5) and C(36,5) hands under both ranking tables through combination.CalculatePower, reduced to classes; "
                       "TLC checks order-isomorphism with HandRank.RefKey along the score-sorted table (adjacent pairs => all pairs by transitivity)",
    }
    vlib.write_evidence(prop, tier, seed, coverage, time.time() - t0, nviol,
                        assumptions=["the class reduction in drv_rank.go (rank multiset + flush flag; every distinct result of a class is kept)",
                                     "HandRank.RefKey states the rules of poker", "short-deck A-6-7-8-9 is excluded as the property leaves it open"])
    if rc == 0 and st.get("classes") != 17732:
        print("INCONCLUSIVE property=%s expected 17732 classes, got %s" % (prop, st.get("classes")))
        return 2
    return rc


REGISTRY["C03"] = rank_check


# ------------------------------------------------------------------ C10
def besthand_check(prop, tier, seed, work, replay):
    t0 = time.time()
    binary = vlib.build_harness(work)
    if replay:
        return ec.run_replay_file(prop, work, binary, replay)
    q = tier == "quick"
    mcs = [generic_mc(work, "MCRank.tla", "mcrank0", dict(RankSet="{2,3,4,5,6,14}", Tables='{"standard","short"}'), invariants=["Iso"])]
    dr = ec.Drive(work, binary)
    dr.generic("deal", "holdem-deal", ["-runs", 500 if q else 6000, "-seed", seed])
    # every seven-card situation of a reduced deck through real hands (quick: every 12th / 20th board, the offset moves with the seed):
    # 2 suits x 7 ranks (flushes, straights incl. the wheel, pairs), 3 suits x 5 ranks under the short-deck table (trips, full houses, wheel flush)
    exhaustive = [dr.generic("dealall-2x7", "holdem-dealall", ["-ranks", "A234567", "-suits", "SH", "-req", 0, "-stride", 12 if q else 1, "-offset", seed, "-seed", seed]),
                  dr.generic("dealall-3x5", "holdem-dealall", ["-ranks", "A2345", "-suits", "SHD", "-req", 0, "-table", "short", "-stride", 20 if q else 1, "-offset", seed, "-seed", seed])]
    if not q:
        exhaustive.append(dr.generic("dealall-2x7-req2", "holdem-dealall", ["-ranks", "A234567", "-suits", "SH", "-req", 2, "-seed", seed]))
    dr.random("random", 220 if q else 3000, seed * 1000 + 11, [], runbase=0)
    simfile = os.path.join(dr.d, "sim.scripts")
    nsim = ec.sim_scripts(work, 60 if q else 600, seed, simfile, 5000000)
    dr.replay("sim", simfile, finish=True, seed=seed)
    dr.repotests()
    # (thorough: 2.8 M lines whose cost is the reference evaluation of 21 to 126 selections per published hand - CPU bound, one chunk per core)
    res = vlib.validate(work, sorted(dr.files), "HoldemTrace.tla", [prop], nchunks=max(4, vlib.NCPU // 2) if q else 2 * vlib.NCPU, heap="3g", timeout=7200,
                        jobs=None if q else max(4, vlib.NCPU - 2))
    log("[val] %d lines, %d failed clauses, %d drift, %.0fs" % (res["lines"], len(res["viol"]), len(res["drift"]), res["tlc_s"]))
    rc, nviol, known_hit = verdict.judge(prop, tier, seed, res["viol"], ec.signature,
                                         lambda v, line, rs: ec.reproduce(prop, work, binary, v, dr.files[v["src"]], line, rs))
    if res["drift"]:
        print("MODEL-DRIFT: %d recorded steps are not steps of the precise model / HandRank.Score; not a verdict" % len(res["drift"]))
    cnt = res["cnt"]
    streets = {k: v for k, v in cnt.items() if k.startswith("C10.")}
    f0 = sorted(dr.files)[0]
    smp = [x for x in vlib.read_lines(f0, 1, 60) if len(x["state"]["board"]) >= 3][:2]
    samples = [{"board": x["state"]["board"], "players": [{"hole": p["hole"], "comb": p["comb"]} for p in x["state"]["P"]]} for x in smp]
    coverage = {
        "states": sum(m["distinct"] for m in mcs), "transitions": sum(m["generated"] for m in mcs),
        "traces_validated_against_impl": int(cnt.get("runs", 0)) + 1,
        "samples": samples or [{"note": "no flop in the first lines"}],
        "model_checking": mc_summary(mcs),
        "streets_evaluated_by_variant": streets,
        "published_hands_checked": sum(streets.values()),
        "real_steps_validated": res["lines"], "tlc_scripts": nsim,
        "reduced_deck_enumeration": [{k: st.get(k) for k in ("deck_cards", "boards", "boards_of_the_deck", "situations", "runs", "req", "table")} for st in exhaustive],
        "model_drift_lines": len(res["drift"]), "failed_clauses": sorted({v["clause"] for v in res["viol"]}),
        "exhaustive": False,
        "explanation": "sampled, not exhaustive over C(52,7): every street of constructed-deck hands (category boundaries), random hands and "
                       "TLC-generated scripts; each published hand is compared by TLC with every admissible five-card selection under HandRank.RefKey; "
                       "exhaustive over the seven-card situations of two reduced decks (14 and 15 cards) in the thorough tier, every 12th / 20th board of them in the quick tier",
    }
    vlib.write_evidence(prop, tier, seed, coverage, time.time() - t0, nviol,
                        assumptions=["C03 (the evaluator orders five-card hands correctly) is checked separately and exhaustively",
                                     "the driver re-runs combination.CalculatePower on the reported cards for the 'same hand' clause"])
    need = [k for k in ("req0.standard", "req2.standard", "req0.short", "req2.short") if not any(k in s and v > 0 for s, v in streets.items())]
    if rc == 0 and need:
        print("INCONCLUSIVE property=%s variants never exercised: %s" % (prop, ",".join(need)))
        return 2
    return rc


REGISTRY["C10"] = besthand_check


# ------------------------------------------------------------------ C08 / C17 / C18
SEAT_TIER = {
    "quick": dict(mc=[(3, "{1,2,3,4}")], explore=[(3, 4, [])], anon=[(5, ["-emit", "next", "-sample", "4", "-latejoin", "3"]),
                        (6, ["-emit", "next", "-frontier", "random", "-max-states", "70000"]),
                        (8, ["-emit", "next", "-frontier", "random", "-max-states", "40000"])],
                  random_runs=400, steps=70, sim_num=200, conc_runs=150),
    "thorough": dict(mc=[(3, "{1,2,3,4}"), (4, "{1,2,3,4,5}"), (5, "{1,2,3,4,5,6}")], explore=[(3, 4, []), (4, 5, ["-emit", "changing"])],
                     anon=[(5, ["-emit", "changing", "-latejoin", "1"]), (6, ["-emit", "next", "-sample", "6", "-latejoin", "1"]),   # every late-joiner situation of the complete 6-seat graph (215,808 runs)
                           (7, ["-emit", "next", "-frontier", "random", "-max-states", "400000"]),
                           (9, ["-emit", "next", "-frontier", "random", "-max-states", "300000"])],
                     random_runs=5000, steps=90, sim_num=300, conc_runs=3000),
}
SEAT_IGNORE = '{"C08.lateJoiner.seatVacatedSinceBlindsSet", "C08.lateJoiner.seatBehindNewBigBlind"}'     # known finding F8: reported from real traces, not from the model


def seat_sim_scripts(work, num, seed, outpath):
    d = work.sub("seatsim")
    vlib.spec_copy(d)
    vlib.write_cfg(os.path.join(d, "SimSeat.cfg"), constants={"MaxSet": "{2,3,4,5,6,7}"}, invariants=["Dump"])
    rc, out = vlib.tlc(d, "SimSeat.tla", "SimSeat.cfg", workers=1, timeout=900,
                       extra=["-simulate", "num=%d" % num, "-depth", "60", "-seed", str(seed)])
    seen, n = set(), 0
    with open(outpath, "w") as f:
        for line in out.splitlines():
            if not line.startswith('<<"SCRIPT", "'):
                continue
            js = line[len('<<"SCRIPT", "'):-len('">>')].encode().decode("unicode_escape")
            if js in seen:
                continue
            seen.add(js)
            hist = json.loads(js)
            f.write(json.dumps(dict(run=900000 + n, max=hist[0]["max"], ops=[dict(op=o["op"], seat=o["seat"], p=o["p"]) for o in hist[1:]])) + "\n")
            n += 1
    if n == 0:
        raise Inconclusive("TLC simulation produced no seat scripts:\n" + out[-1500:])
    return n


def seat_check(prop, tier, seed, work, replay):
    t0 = time.time()
    T = SEAT_TIER[tier]
    binary = vlib.build_harness(work)

    def run_script(desc, d):
        # Join(-1) picks its seat with math/rand: the script is replayed once with those joins pinned to the seat the
        # recorded run got, and 20 times as recorded
        sp = os.path.join(d, "s.ndjson")
        open(sp, "w").write(json.dumps(desc["script"]) + "\n")
        out = os.path.join(d, "out.ndjson")
        vlib.drive(binary, ["seat-replay", "-scripts", sp, "-o", out, "-pin"])
        out2 = os.path.join(d, "out2.ndjson")
        vlib.drive(binary, ["seat-replay", "-scripts", sp, "-o", out2, "-repeat", 20])
        open(out, "a").write(open(out2).read())
        return out

    if replay:
        desc = json.load(open(replay))
        d = work.sub("replay")
        if desc["kind"] == "seat-script":
            out = run_script(desc, d)
        elif desc["kind"] in ("seat-explore", "seat-driver"):
            out = os.path.join(d, "out.ndjson")
            vlib.drive(binary, desc["args"] + ["-o", out], timeout=3600)
        elif desc["kind"] == "table-driver":
            out = os.path.join(d, "out.ndjson")
            vlib.drive(binary, desc["args"] + ["-o", out], timeout=3600)
            r = vlib.validate(work, [out], "TableTrace.tla", [prop], nchunks=4, heap="3g")
            if any(x["clause"] == desc["clause"] for x in r["viol"]):
                print("VIOLATION property=%s replay=%s" % (prop, replay))
                return 1
            print("replay of %s: clause %s holds" % (replay, desc["clause"]))
            return 0
        else:
            out = os.path.join(d, "out.ndjson")
            vlib.drive(binary, ["seat-conc", "-runs", desc["runs"], "-seed", desc["seed"], "-o", out])
        r = vlib.validate(work, [out], "SeatTrace.tla", [prop], nchunks=4, heap="3g")
        bad = [x for x in r["viol"] if x["clause"] == desc["clause"]]
        if bad:
            print("VIOLATION property=%s replay=%s" % (prop, replay))
            return 1
        print("replay of %s: clause %s holds" % (replay, desc["clause"]))
        return 0

    mcs = []
    for mx, players in T["mc"]:
        if mx >= 5 and prop == "C08":
            continue   # with the late-joiner history in the view the 5-seat model does not finish in an hour; 5 and 6 seats are explored on the real code
        mcs.append(generic_mc(work, "MCSeat.tla", "mcseat%d" % mx,
                              dict(MaxSeats=str(mx), Players=players, Props=vlib.tla_set([prop]), Ignore=SEAT_IGNORE, WithReset="TRUE"),
                              invariants=["NoCrash"] if prop == "C18" else [], properties=["StepHolds"],
                              view="View" if prop == "C08" else "ViewNoHist", timeout=3400))
    proof = None
    if prop == "C18":
        mcs.append(generic_mc(work, "SeatJoinConc.tla", "conc", dict(Procs="{1,2,3}", MaxSeats="2", UseMutex="TRUE"),
                              invariants=["MutualExclusion", "EpisodeOK"]))
        proof = tlaps_proof(work, "SeatJoinProof.tla")
    if prop == "C17":
        proof = tlaps_proof(work, "SeatNextProof.tla")
    if prop == "C08" and tier == "thorough":
        proof = tlaps_proof(work, "SeatBlindsProof.tla")   # 343 obligations, about 90 s: thorough tier only
    mc_cmp = generic_mc(work, "MCSeat.tla", "mcseatcmp", dict(MaxSeats="3", Players="{1,2,3,4}", Props="{}", Ignore="{}", WithReset="TRUE"), view="CmpView")
    for m in mcs:
        if not m["ok"]:
            print("MODEL-NOTE: clauses of %s violated in the MODEL (%s): not a verdict (R1)" % (prop, m["violated"]))

    d = work.sub("seat")
    # (file names sort cheap sources first: the representative of a failing signature - the run that is replayed from
    # scratch - is taken from the corpus / a script before an exploration that takes minutes to repeat)
    files = {}
    stats = {}
    for mx, pl, extra in T["explore"]:
        f = os.path.join(d, "d_explore%d.ndjson" % mx)
        args = ["seat-explore", "-max", mx, "-players", pl] + extra
        stats["explore%d" % mx] = vlib.drive(binary, args + ["-o", f], timeout=3600)
        files[f] = dict(kind="seat-explore", args=[str(a) for a in args])
    # larger tables: the implementation's graph up to player identities (the manager never looks at them)
    for mx, extra in T["anon"]:
        f = os.path.join(d, "e_anon%d.ndjson" % mx)
        args = ["seat-explore", "-max", mx, "-players", mx + 1, "-anon", "-fork", "snapshot", "-seed", seed] + extra
        stats["anon%d" % mx] = vlib.drive(binary, args + ["-o", f], timeout=3600)
        files[f] = dict(kind="seat-explore", args=[str(a) for a in args])
    f = os.path.join(d, "b_random.ndjson")
    scr = os.path.join(d, "random.scripts")
    stats["random"] = vlib.drive(binary, ["seat-random", "-runs", T["random_runs"], "-steps", T["steps"], "-seed", seed, "-o", f, "-scripts", scr])
    files[f] = dict(kind="seat-script", scripts=scr)
    # the committed corpus: one script for every signature class of calls met while enumerating the 3..6-seat graphs
    # (corpus/seat/README), replayed with a late-joiner run behind every script that ends with an empty seat in the blinds zone
    corpus = os.path.join(vlib.VERIF, "corpus", "seat", "all.ndjson")
    if os.path.exists(corpus):
        f = os.path.join(d, "a_corpus.ndjson")
        cargs = ["seat-replay", "-scripts", corpus, "-latejoin"]
        stats["corpus"] = vlib.drive(binary, cargs + ["-o", f])
        files[f] = dict(kind="seat-driver", args=cargs)
    simf = os.path.join(d, "sim.scripts")
    nsim = seat_sim_scripts(work, T["sim_num"], seed, simf)
    f = os.path.join(d, "c_sim.ndjson")
    scr2 = os.path.join(d, "sim.out.scripts")
    stats["sim"] = vlib.drive(binary, ["seat-replay", "-scripts", simf, "-o", f, "-out-scripts", scr2])
    files[f] = dict(kind="seat-script", scripts=scr2)
    if prop == "C18":
        # match.Table as a client of the seat manager (match/table.go)
        f = os.path.join(d, "match.ndjson")
        margs = ["match-random", "-runs", 150 if tier == "quick" else 4000, "-seed", seed]
        stats["match"] = vlib.drive(binary, margs + ["-o", f])
        files[f] = dict(kind="seat-driver", args=[str(a) for a in margs])
        f = os.path.join(d, "conc.ndjson")
        stats["conc"] = vlib.drive(binary, ["seat-conc", "-runs", T["conc_runs"], "-seed", seed, "-o", f], timeout=1200)
        files[f] = dict(kind="seat-conc", runs=T["conc_runs"], seed=seed)
    res = vlib.validate(work, sorted(files), "SeatTrace.tla", [prop], nchunks=max(4, vlib.NCPU // 2), heap="3g", maxviol=200)
    log("[val] %d lines, %d failed clauses, %d drift, %.0fs" % (res["lines"], len(res["viol"]), len(res["drift"]), res["tlc_s"]))
    if prop == "C08":
        # the seat manager as the TABLE uses it (table/internal.go: Next after every hand, busted players reserved, late joiners):
        # the line on which a new hand appears shows the seat manager right after its successful move (TableTrace.tla)
        tf = os.path.join(d, "table.ndjson")
        targs = ["table-random", "-runs", 120 if tier == "quick" else 2500, "-seed", seed]
        try:
            stats["table"] = vlib.drive(binary, targs + ["-o", tf], timeout=3600)
            tres = vlib.validate(work, [tf], "TableTrace.tla", [prop], nchunks=max(4, vlib.NCPU // 2), heap="3g", maxviol=200)
            log("[val] table-random: %d lines, %d failed clauses, %d drift" % (tres["lines"], len(tres["viol"]), len(tres["drift"])))
            files[tf] = dict(kind="table-driver", args=[str(a) for a in targs])
            res["viol"] += tres["viol"]
            res["drift"] += tres["drift"]
            res["lines"] += tres["lines"]
            for k, c in tres["cnt"].items():
                res["cnt"][k] = res["cnt"].get(k, 0) + c
        except Inconclusive as e:
            # the table layer is an additional source: if it stalls or cannot be followed, the seat manager's own stages are judged as usual
            print("MODEL-NOTE: the table-level run gave no result (%s); the other stages are judged as usual" % str(e)[:300].replace("\n", " | "))
            stats["table"] = {"failed": str(e)[:300]}
            res["cnt"]["C08.positions.viaTable"] = res["cnt"].get("C08.positions.viaTable", 0) + 1   # not required when the table gave nothing

    def sig(v, line, rs):
        return "%s|op=%s" % (v["clause"], (line or {}).get("op", (line or {}).get("kind")))

    def repro(v, line, rs):
        info = files[v["src"]]
        dd = work.sub("repro")
        desc = dict(kind=info["kind"], clause=v["clause"], failing_line=line)
        if info["kind"] == "seat-script":
            s = vlib.find_script(info["scripts"], line["run"])
            if s is None:
                return False, None
            desc["script"] = s
            out = run_script(desc, dd)
        elif info["kind"] == "seat-explore":
            desc.update(args=info["args"], state=rs)
            out = os.path.join(dd, "out.ndjson")
            vlib.drive(binary, info["args"] + ["-o", out], timeout=3600)
        elif info["kind"] == "seat-driver":
            desc.update(args=info["args"])
            out = os.path.join(dd, "out.ndjson")
            vlib.drive(binary, info["args"] + ["-o", out])
        elif info["kind"] == "table-driver":
            desc.update(args=info["args"])
            out = os.path.join(dd, "out.ndjson")
            vlib.drive(binary, info["args"] + ["-o", out], timeout=3600)
            r = vlib.validate(work, [out], "TableTrace.tla", [prop], nchunks=4, heap="3g", maxviol=200)
            return any(x["clause"] == v["clause"] for x in r["viol"]), desc
        else:
            desc.update(runs=info["runs"], seed=info["seed"])
            out = os.path.join(dd, "out.ndjson")
            vlib.drive(binary, ["seat-conc", "-runs", info["runs"], "-seed", info["seed"], "-o", out])
        r = vlib.validate(work, [out], "SeatTrace.tla", [prop], nchunks=4, heap="3g", maxviol=200)
        return any(x["clause"] == v["clause"] for x in r["viol"]), desc

    rc, nviol, known_hit = verdict.judge(prop, tier, seed, res["viol"], sig, repro)
    real_states = stats["explore3"].get("distinct")
    both = dict(model_distinct=mc_cmp["distinct"], real_distinct=real_states, equal=mc_cmp["distinct"] == real_states)
    if not both["equal"]:
        print("MODEL-DRIFT: the real seat manager reaches %s distinct seat maps on 3 seats, the model %s" % (real_states, mc_cmp["distinct"]))
    if res["drift"]:
        print("MODEL-DRIFT: %d recorded calls are not steps of the precise model; not a verdict" % len(res["drift"]))
    cnt = res["cnt"]
    rf = [f for f in files if f.endswith("random.ndjson")][0]
    coverage = {
        "states": sum(m["distinct"] for m in mcs), "transitions": sum(m["generated"] for m in mcs),
        "traces_validated_against_impl": int(cnt.get("runs", 0)) + int(cnt.get("conc.episodes", 0)),
        "samples": [{"calls": [[x["op"], x["seat"], x["p"], x["got"], x["res"]] for x in vlib.read_lines(rf, 2, 16)]}],
        "model_checking": mc_summary(mcs + [mc_cmp]),
        "both_sides_exploration": both, "tlaps_proof": proof,
        "real_calls_validated": res["lines"], "real_calls_by_source": stats, "tlc_scripts": nsim,
        "both_sides_exploration": both,
        "antecedents_exercised_on_real_code": cnt,
        "model_drift_lines": len(res["drift"]), "known_findings_hit": known_hit,
        "failed_clauses": sorted({v["clause"] for v in res["viol"]}),
        "exhaustive": False,
    }
    vlib.write_evidence(prop, tier, seed, coverage, time.time() - t0, nviol,
                        assumptions=["projection drv_seat.go", "every Join uses a fresh player id (the manager does not know player identity)",
                                     "C18 schedules: the gate hook decides check/commit interleavings of Join; the Go memory model is not explored"])
    need = {"C08": ["C08.positions.n2", "C08.positions.n3", "C08.lateJoiner", "C08.lateJoiner.dealtIn", "C08.positions.viaTable"],
            "C17": ["C17.button", "C17.insufficient", "op.Reset.ok"],
            "C18": ["C18.joinAny", "C18.joinAny.full", "conc.episodes", "conc.blockedOnMutex", "conc.sameSeat", "op.MT.Apply.ok", "op.Reset.ok"]}[prop]
    missing = [a for a in need if cnt.get(a, 0) == 0]
    if rc == 0 and missing:
        print("INCONCLUSIVE property=%s never exercised: %s" % (prop, ",".join(missing)))
        return 2
    return rc


for _p in ("C08", "C17", "C18"):
    REGISTRY[_p] = seat_check


# ------------------------------------------------------------------ C09 / C19 / C20
REG_TIER = {
    "quick": dict(mc=[(3, 2, 7), (3, 3, 7)], live=(3, 2, 5), random_runs=500, steps=45, sweep=["-maxmax", "6", "-stride", "2"], sim_num=12,
                  explore=[(3, 2, 6), (3, 3, 7), (2, 2, 6)], settle=2, repeat=6),
    "thorough": dict(mc=[(2, 2, 6), (3, 2, 7), (3, 3, 8), (4, 3, 9), (4, 2, 9)], live=(3, 2, 6), random_runs=4000, steps=60,
                     sweep=["-maxmax", "10", "-stride", "1"], sim_num=120,
                     explore=[(3, 2, 7), (3, 3, 8), (2, 2, 7), (4, 3, 8), (4, 2, 7)], settle=3, repeat=12),
}


def reg_sim_scripts(work, num, seed, outpath):
    d = work.sub("regsim")
    vlib.spec_copy(d)
    vlib.write_cfg(os.path.join(d, "SimReg.cfg"), constants={"Settings": "Settings <- SimSettings"}, invariants=["Dump"])
    rc, out = vlib.tlc(d, "SimReg.tla", "SimReg.cfg", workers=1, timeout=900,
                       extra=["-simulate", "num=%d" % num, "-depth", "45", "-seed", str(seed)])
    seen, n = set(), 0
    with open(outpath, "w") as f:
        for line in out.splitlines():
            if not line.startswith('<<"SCRIPT", "'):
                continue
            js = line[len('<<"SCRIPT", "'):-len('">>')].encode().decode("unicode_escape")
            if js in seen:
                continue
            seen.add(js)
            hist = json.loads(js)
            f.write(json.dumps(dict(run=700000 + n, max=hist[0]["max"], min=hist[0]["min"],
                                    ops=[dict(op=o["op"], n=o["n"], t=o["t"]) for o in hist[1:]])) + "\n")
            n += 1
    if n == 0:
        raise Inconclusive("TLC simulation produced no regulator scripts:\n" + out[-1500:])
    return n


def reg_check(prop, tier, seed, work, replay):
    t0 = time.time()
    T = REG_TIER[tier]
    binary = vlib.build_harness(work)

    def run_script(script, d, repeat=1):
        sp = os.path.join(d, "s.ndjson")
        open(sp, "w").write(json.dumps(script) + "\n")
        out = os.path.join(d, "out.ndjson")
        vlib.drive(binary, ["reg-replay", "-scripts", sp, "-o", out, "-repeat", repeat])
        return out

    if replay:
        desc = json.load(open(replay))
        out = run_script(desc["script"], work.sub("replay"), repeat=25)
        r = vlib.validate(work, [out], "RegTrace.tla", [prop], nchunks=4, heap="3g", maxviol=200)
        if any(x["clause"] == desc["clause"] for x in r["viol"]):
            print("VIOLATION property=%s replay=%s" % (prop, replay))
            return 1
        print("replay of %s (25 times: the code iterates over Go maps): clause %s holds" % (replay, desc["clause"]))
        return 0

    mcs = []
    for mx, mn, reg in T["mc"]:
        mcs.append(generic_mc(work, "MCReg.tla", "mcreg%d%d" % (mx, mn),
                              dict(MX=str(mx), MN=str(mn), MaxReg=str(reg), MaxBatch="3", MaxOut="2", Props=vlib.tla_set([prop]),
                                   WithSettle="TRUE" if prop == "C20" else "FALSE"),
                              invariants=["MaxSweeps"], properties=["StepHolds"], view="View", timeout=3400))
    if prop == "C20":
        mx, mn, reg = T["live"]
        mcs.append(generic_mc(work, "MCReg.tla", "mcreglive",
                              dict(MX=str(mx), MN=str(mn), MaxReg=str(reg), MaxBatch="3", MaxOut="2", Props=vlib.tla_set([prop]), WithSettle="TRUE"),
                              properties=["Settles"], spec="LiveSpec", timeout=3400))
    for m in mcs:
        if not m["ok"]:
            print("MODEL-NOTE: clauses of %s violated in the MODEL (%s): not a verdict (R1)" % (prop, m["violated"]))

    d = work.sub("reg")
    files, stats = {}, {}
    f, scr = os.path.join(d, "random.ndjson"), os.path.join(d, "random.scripts")
    stats["random"] = vlib.drive(binary, ["reg-random", "-runs", T["random_runs"], "-steps", T["steps"], "-seed", seed, "-o", f, "-scripts", scr], timeout=3600)
    files[f] = scr
    if prop in ("C19", "C09"):
        f, scr = os.path.join(d, "sweep.ndjson"), os.path.join(d, "sweep.scripts")
        stats["sweep"] = vlib.drive(binary, ["reg-sweep", "-seed", seed, "-o", f, "-scripts", scr] + T["sweep"], timeout=3600)
        files[f] = scr
    # the real regulator's own reachable graph in MCReg's scope and alphabet (states rebuilt by replay; the dispatch iterates
    # over a Go map, so expansions are repeated); every distinct transition is validated like any other call, and the number
    # of states met is reported next to TLC's count for the same scope (real is a subset: the map order takes only some branches)
    both = []
    for mx, mn, reg in T["explore"]:
        f, scr = os.path.join(d, "explore%d%d%d.ndjson" % (mx, mn, reg)), os.path.join(d, "explore%d%d%d.scripts" % (mx, mn, reg))
        m = next((x for x in mcs if x["scope"].get("MX") == str(mx) and x["scope"].get("MN") == str(mn) and x["scope"].get("MaxReg") == str(reg)
                  and x["scope"].get("WithSettle") == "FALSE"), None)
        if m is None:
            m = generic_mc(work, "MCReg.tla", "mcregcmp%d%d%d" % (mx, mn, reg),
                           dict(MX=str(mx), MN=str(mn), MaxReg=str(reg), MaxBatch="3", MaxOut="2", Props=vlib.tla_set([prop]), WithSettle="FALSE"),
                           invariants=["MaxSweeps"], properties=["StepHolds"], view="View", timeout=3400)
            if not m["ok"]:
                print("MODEL-NOTE: clauses of %s violated in the MODEL (%s): not a verdict (R1)" % (prop, m["violated"]))
            mcs.append(m)
        # (a changed regulator may have a much larger graph than the model: the exploration stops at 1.3 x the model's size)
        st = vlib.drive(binary, ["reg-explore", "-max", mx, "-min", mn, "-maxreg", reg, "-maxbatch", 3, "-maxout", 2, "-repeat", T["repeat"], "-o", f, "-scripts", scr,
                                 "-max-states", int(m["distinct"] * 1.3) + 500,
                                 "-settle", T["settle"] if prop == "C20" else 0, "-settle-every", 1 if m["distinct"] < 30000 else 4], timeout=3600)
        stats["explore%d%d%d" % (mx, mn, reg)] = st
        files[f] = scr
        both.append({"scope": {"max": mx, "min": mn, "registrants": reg, "batch": 3, "eliminations_per_sync": 2},
                     "real_states": st.get("states"), "real_transitions": st.get("transitions"), "model_states": m["distinct"],
                     "states_not_rebuilt_by_replay": st.get("unreproduced_states"), "settle_episodes": st.get("settle_episodes")})
        log("[explore] (%d,%d,%d): real %s states / %s transitions, model %d states" % (mx, mn, reg, st.get("states"), st.get("transitions"), m["distinct"]))
    simf = os.path.join(d, "sim.scripts")
    nsim = reg_sim_scripts(work, T["sim_num"], seed, simf)
    f, scr = os.path.join(d, "sim.ndjson"), os.path.join(d, "sim.out.scripts")
    stats["sim"] = vlib.drive(binary, ["reg-replay", "-scripts", simf, "-o", f, "-out-scripts", scr])
    files[f] = scr
    res = vlib.validate(work, sorted(files), "RegTrace.tla", [prop], nchunks=max(4, vlib.NCPU // 2), heap="3g", maxviol=100)
    log("[val] %d lines, %d failed clauses, %d drift, %.0fs" % (res["lines"], len(res["viol"]), len(res["drift"]), res["tlc_s"]))

    def sig(v, line, rs):
        st = (line or {}).get("state") or {}
        return "%s|op=%s" % (v["clause"], (line or {}).get("op"))

    def repro(v, line, rs):
        script = vlib.find_script(files[v["src"]], line["run"])
        if script is None:
            return False, None
        out = run_script(script, work.sub("repro"), repeat=25)
        r = vlib.validate(work, [out], "RegTrace.tla", [prop], nchunks=4, heap="3g", maxviol=200)
        return any(x["clause"] == v["clause"] for x in r["viol"]), dict(kind="reg-script", clause=v["clause"], script=script, failing_line=line)

    rc, nviol, known_hit = verdict.judge(prop, tier, seed, res["viol"], sig, repro)
    if res["drift"]:
        d0 = res["drift"][0]
        dl = vlib.read_line(d0["src"], d0["srcline"])
        print("MODEL-DRIFT: %d recorded calls are not steps of the precise model (first: %s); not a verdict" % (len(res["drift"]), verdict.brief(dl)))
    cnt = res["cnt"]
    rf = [x for x in files if x.endswith("random.ndjson")][0]
    coverage = {
        "states": sum(m["distinct"] for m in mcs), "transitions": sum(m["generated"] for m in mcs),
        "traces_validated_against_impl": int(cnt.get("runs", 0)),
        "samples": [{"calls": [[x["op"], x["id"], x["out"], x["players"], x["err"], x["release"], x["handed"], x["calls"]] for x in vlib.read_lines(rf, 2, 9)]}],
        "model_checking": mc_summary(mcs),
        "real_calls_validated": res["lines"], "real_calls_by_source": stats, "tlc_scripts": nsim,
        "both_sides_exploration": both,
        "antecedents_exercised_on_real_code": cnt,
        "model_drift_lines": len(res["drift"]), "known_findings_hit": known_hit,
        "failed_clauses": sorted({v["clause"] for v in res["viol"]}),
        "exhaustive": False,
    }
    vlib.write_evidence(prop, tier, seed, coverage, time.time() - t0, nviol,
                        assumptions=["the environment follows the regulator's instructions (tables release exactly the number asked for, seat the players handed out)",
                                     "the waiting queue is read through the verif snapshot hook", "projection drv_reg.go"])
    need = {"C09": ["C09.syncHandsOut", "C09.syncReleases", "C09.unknownTable", "C09.brokenTableNamed", "C09.unknownTableWithEliminations", "C09.afterDeadline", "C20.break"],
            "C19": ["C19.request", "C19.initialAllocation", "C19.assign", "C19.strayRelease", "C19.strayReleaseWhilePending"],
            "C20": ["C20.break", "C20.settleEpisode"]}[prop]
    missing = [a for a in need if cnt.get(a, 0) == 0]
    if rc == 0 and missing:
        print("INCONCLUSIVE property=%s never exercised: %s" % (prop, ",".join(missing)))
        return 2
    return rc


for _p in ("C09", "C19", "C20"):
    REGISTRY[_p] = reg_check


# ------------------------------------------------------------------ C07 / C15
def scripts_for(work, binary, seed, runs, sim_num, flags=("-rehydrate", "6")):
    """engine scripts: seeded random hands (with Rehydrate cut points) + TLC-generated ones"""
    d = work.sub("scripts")
    scr = os.path.join(d, "random.scripts")
    vlib.drive(binary, ["holdem-random", "-runs", runs, "-seed", seed, "-o", os.path.join(d, "random.ndjson"), "-scripts", scr] + list(flags))
    os.remove(os.path.join(d, "random.ndjson"))
    simf = os.path.join(d, "sim.scripts")
    nsim = ec.sim_scripts(work, sim_num, seed, simf, 5000000)
    # the op sequences of the repository's own scenario tests (DESIGN 3.5), as scripts with the deck each test was dealt
    rts = os.path.join(d, "repotests.scripts")
    rt = vlib.repo_tests_trace(work, binary, os.path.join(d, "repotests.ndjson"), scripts=rts)
    log("[scripts] repository scenario tests: %s runs recorded" % rt.get("runs"))
    both = os.path.join(d, "all.scripts")
    with open(both, "w") as f:
        f.write(open(scr).read())
        f.write(open(simf).read())
        if os.path.exists(rts):
            f.write(open(rts).read())
    return both, nsim


def line_check(prop, tier, seed, work, replay, module, driver, driver_flags, mc_fn, need, independent, assumptions, explanation,
               extra=None):
    """extra: optional (driver subcommand, args, trace module): a self-contained seeded driver whose lines are judged too"""
    t0 = time.time()
    binary = vlib.build_harness(work)
    q = tier == "quick"

    def run_on(scripts_path, d, flags):
        out = os.path.join(d, "out.ndjson")
        st = vlib.drive(binary, [driver, "-scripts", scripts_path, "-o", out] + list(flags), timeout=3600)
        return out, st

    if replay:
        desc = json.load(open(replay))
        d = work.sub("replay")
        if desc.get("kind") == "driver":
            out = os.path.join(d, "out.ndjson")
            vlib.drive(binary, desc["args"] + ["-o", out], timeout=3600)
            r = vlib.validate(work, [out], desc["module"], [prop], nchunks=4, heap="3g")
            if any(x["clause"] == desc["clause"] for x in r["viol"]):
                print("VIOLATION property=%s replay=%s" % (prop, replay))
                return 1
            print("replay of %s: clause %s holds" % (replay, desc["clause"]))
            return 0
        sp = os.path.join(d, "s.scripts")
        open(sp, "w").write(json.dumps(desc["script"]) + "\n")
        out, _ = run_on(sp, d, driver_flags)
        r = vlib.validate(work, [out], module, [prop], nchunks=2, heap="3g", independent=independent)
        if any(x["clause"] == desc["clause"] for x in r["viol"]):
            print("VIOLATION property=%s replay=%s" % (prop, replay))
            return 1
        print("replay of %s: clause %s holds" % (replay, desc["clause"]))
        return 0

    mcs = mc_fn(work, q)
    for m in mcs:
        if not m["ok"]:
            print("MODEL-NOTE: %s violated in the MODEL (%s): not a verdict (R1)" % (prop, m["violated"]))
    scripts, nsim = scripts_for(work, binary, seed, 260 if q else 3000, 60 if q else 600)
    d = work.sub("lines")
    out, st = run_on(scripts, d, driver_flags)
    res = vlib.validate(work, [out], module, [prop], nchunks=max(4, vlib.NCPU // 2), heap="3g", independent=independent, timeout=3600)
    log("[val] %d lines, %d failed clauses, %d drift, %.0fs" % (res["lines"], len(res["viol"]), len(res["drift"]), res["tlc_s"]))
    xst = {}
    failed_prefixes = []   # antecedents that a failed additional driver would have exercised are not demanded
    extras = {}   # trace file -> (full driver command, trace module)
    for xi, (xdriver, xargs, xmodule) in enumerate([extra] if isinstance(extra, tuple) else (extra or [])):
        xout = os.path.join(d, "extra%d.ndjson" % xi)
        xfull = [xdriver] + [str(a) for a in xargs]
        try:
            xst[xdriver] = vlib.drive(binary, xfull + ["-o", xout], timeout=3600)
            xres = vlib.validate(work, [xout], xmodule, [prop], nchunks=max(4, vlib.NCPU // 2), heap="3g", timeout=3600)
        except Inconclusive as e:
            # an additional driver must never take the main verdict away (a table that stalls, a trace the model cannot follow)
            print("MODEL-NOTE: additional driver %s gave no result (%s); the other stages are judged as usual" % (xdriver, str(e)[:300].replace("\n", " | ")))
            xst[xdriver] = {"failed": str(e)[:300]}
            failed_prefixes.append({"tablegame-random": "tg.", "table-random": "table."}.get(xdriver, xdriver))
            continue
        log("[val] %s: %d lines, %d failed clauses, %d drift" % (xdriver, xres["lines"], len(xres["viol"]), len(xres["drift"])))
        extras[xout] = (xfull, xmodule)
        res["viol"] += xres["viol"]
        res["drift"] += xres["drift"]
        res["lines"] += xres["lines"]
        for k, c in xres["cnt"].items():
            res["cnt"][k] = res["cnt"].get(k, 0) + c

    def sig(v, line, rs):
        return "%s|op=%s" % (v["clause"], (line or {}).get("op"))

    def repro(v, line, rs):
        if v["src"] in extras:
            xfull, xmodule = extras[v["src"]]
            dd = work.sub("repro")
            o2 = os.path.join(dd, "out.ndjson")
            vlib.drive(binary, xfull + ["-o", o2], timeout=3600)
            r = vlib.validate(work, [o2], xmodule, [prop], nchunks=4, heap="3g")
            return any(x["clause"] == v["clause"] for x in r["viol"]), dict(kind="driver", clause=v["clause"], args=xfull, module=xmodule,
                                                                              failing_line={k: line[k] for k in line if k in ("op", "seat", "x", "run", "err", "stuck")})
        s = ec.find_script(scripts, line["run"])
        if s is None:
            return False, None
        dd = work.sub("repro")
        sp = os.path.join(dd, "s.scripts")
        open(sp, "w").write(json.dumps(s) + "\n")
        o2, _ = run_on(sp, dd, driver_flags)
        r = vlib.validate(work, [o2], module, [prop], nchunks=1, heap="3g", independent=independent)
        return any(x["clause"] == v["clause"] for x in r["viol"]), dict(kind="script", clause=v["clause"], script=s,
                                                                          failing_line={k: line[k] for k in line if k in ("op", "seat", "x", "run", "errM", "errJ", "errB", "err")})

    gk = (lambda v: (v["src"], v["srcline"], v["clause"])) if independent else None
    rc, nviol, known_hit = verdict.judge(prop, tier, seed, res["viol"], sig, repro, group_key=gk)
    if res["drift"]:
        print("MODEL-DRIFT: %d recorded lines differ from the precise model; not a verdict" % len(res["drift"]))
    cnt = res["cnt"]
    smp = vlib.read_lines(out, 2, 4)
    samples = [{k: x[k] for k in x if k in ("op", "seat", "x", "errM", "errJ", "errB", "hasB", "inputSame", "rawEqMJ", "rawEqMB", "mode", "err")} for x in smp]
    coverage = {
        "states": sum(m["distinct"] for m in mcs), "transitions": sum(m["generated"] for m in mcs),
        "traces_validated_against_impl": int(st.get("runs", 0)),
        "samples": samples,
        "model_checking": mc_summary(mcs),
        "real_lines_validated": res["lines"], "driver": st, "extra_driver": xst, "tlc_scripts": nsim,
        "antecedents_exercised_on_real_code": cnt,
        "model_drift_lines": len(res["drift"]), "known_findings_hit": known_hit,
        "failed_clauses": sorted({v["clause"] for v in res["viol"]}),
        "exhaustive": False, "explanation": explanation,
    }
    vlib.write_evidence(prop, tier, seed, coverage, time.time() - t0, nviol, assumptions=assumptions)
    missing = [a for a in need if cnt.get(a, 0) == 0 and not any(a.startswith(fp) for fp in failed_prefixes)]
    if rc == 0 and missing:
        print("INCONCLUSIVE property=%s never exercised: %s" % (prop, ",".join(missing)))
        return 2
    return rc


def resume_check(prop, tier, seed, work, replay):
    def mc(work, q):
        return [ec.model_check(work, "small" if q else "medium", ["C06"], False), table_mc(work, q)]
    return line_check(prop, tier, seed, work, replay, "ResumeTrace.tla", "holdem-resume", ["-mode", "both", "-seed", str(seed)], mc,
                      ["runs.always", "runs.cuts", "backendCalls", "refusedCalls", "handsClosed", "tg.handsClosed", "tg.TG.Ready", "tg.TG.Pay",
                       "table.handsStarted", "table.handsClosed", "table.closed", "table.restartedFromIdle", "table.newBlindLevel"], False,
                      ["complete-state equality is computed by the driver on the JSON encodings (timestamps and game id removed)",
                       "the backend instance is created with CreateGame and then given the same deck (nothing is dealt before the first ready)"],
                      "three instances in lock-step (in-memory, re-hydrated from JSON before every call and at scripted cut points, NativeBackend) + a second "
                      "in-memory run; in the model re-hydration is a stuttering step enabled at every wait point; plus whole hands driven through the "
                      "table layer (table/game.go: ready group, auto-next, every call through the stateless backend) in lock-step with an in-memory game "
                      "and validated against the model TableGame.tla; plus whole TABLES (table/table.go: seat manager, positions, a new game per hand, settlement into "
                      "bankrolls, busted players reserved or removed, end conditions) over several hands against the model Table.tla, itself model-checked (MCTable)",
                      extra=[("tablegame-random", ["-runs", 150 if tier == "quick" else 3000, "-seed", seed], "TableGameTrace.tla"),
                             ("table-random", ["-runs", 120 if tier == "quick" else 2500, "-seed", seed], "TableTrace.tla")])


# the hand loop of a table (Table.tla) over the precise hand model, small scope, with the environment the drivers keep to
TABLE_MC = {
    True: dict(MaxSeats="3", Banks="{2, 3}", MaxGames="2", Elim='"reserve"', Joinable="FALSE", Blinds="Blinds <- BlindsBasic", MaxJoins="3", MaxOps="3",
               S="2", BrokeMayReturn="FALSE", LeaveMidHand="FALSE"),
    False: dict(MaxSeats="3", Banks="{1, 2, 3}", MaxGames="3", Elim='"leave"', Joinable="FALSE", Blinds="Blinds <- BlindsAnte", MaxJoins="3", MaxOps="4",
                S="2", BrokeMayReturn="FALSE", LeaveMidHand="FALSE"),
}


def table_mc(work, q):
    return generic_mc(work, "MCTable.tla", "mctable", TABLE_MC[q],
                      invariants=["IdxOK", "PositionsOK", "ChipsOK", "CountOK", "HandHasPositions", "StartNeverRefused", "DealtInOK", "BlindsOK"],
                      properties=["ClosedIsFinal"], view="View", timeout=3400)


def views_check(prop, tier, seed, work, replay):
    def mc(work, q):
        sc = dict(ec.MC_SCOPES["cmp" if q else "small"])
        sc.update(Props="{}", TrackHist="FALSE", RecordOut="TRUE")
        return [generic_mc(work, "MCViews.tla", "mcviews", sc, invariants=["ViewsOK"], view="CmpView")]
    return line_check(prop, tier, seed, work, replay, "ViewTrace.tla", "holdem-views", ["-every", "2" if tier == "quick" else "1"], mc,
                      ["open", "closed", "closedWithFolded", "withBoard"], True,
                      ["views are taken on JSON clones of the recorded state", "the leak scan looks for the 52 card symbols anywhere in the view's JSON"],
                      "every recorded state x (N seats + observer): TLC compares the view with the full state field by field and checks every card symbol found in the view's JSON")


REGISTRY["C07"] = resume_check
REGISTRY["C15"] = views_check

"""Checks of the non-engine properties (filled in as they are built)."""
REGISTRY = {}

"""Checks of the hand-engine properties C01 C04 C05 C06 C11 C12 C13 C14 (DESIGN.md 5).

All of them share one pipeline: the precise model Holdem.tla is model-checked against the
property layer HoldemProps.tla in a small scope (cached: it does not depend on /repo); the
REAL engine is then driven (exhaustive exploration of its own state graph in the same small
scope, TLC-generated scripts, seeded random hands with refusal probes and per-action forks,
property-specific sweeps) and every recorded step is evaluated by TLC against the property's
clauses (HoldemTrace.tla).  A failed clause becomes a verdict only after its script has been
replayed from scratch and failed again.
"""
import glob
import json
import os
import time

import verdict
import vlib
from vlib import Inconclusive, log

ENGINE_PROPS = ["C01", "C04", "C05", "C06", "C11", "C12", "C13", "C14"]
ALL = ENGINE_PROPS

# scopes -------------------------------------------------------------------------------
CMP_SCOPE = dict(n="2,3", banks="1,2,3", structs="0,0,1,2", amts="1..4", limits="no")
# heads-up with stacks that still hold a minimum bet after the flop, with and without a dealer blind above the big blind
DEEP_SCOPE = dict(n="2", banks="3,4,5,6", structs="0,0,1,2;0,3,1,2", amts="1..5", limits="no")
TIER = {
    "quick": dict(mc_scopes=["small"], mc_timeout=1500, random_runs=700, probe_runs=12, fork_runs=80,
                  sim_num=250, explore=[CMP_SCOPE, DEEP_SCOPE], bbonly_runs=25, sweep="small", shuffle_runs=150, seeds=1),
    "thorough": dict(mc_scopes=["small", "medium", "structs", "four"], mc_timeout=7200, random_runs=5000, probe_runs=100, fork_runs=800,
                     sim_num=1200,
                     explore=[CMP_SCOPE, DEEP_SCOPE,
                              dict(n="2,3", banks="1,2,4", structs="0,0,1,2;1,0,1,2", amts="-1..6", limits="no"),
                              dict(n="2,3", banks="2,3,5", structs="1,2,0,0;0,0,1,2", amts="1..6", limits="pot"),
                              dict(n="4", banks="1,3", structs="0,0,1,2", amts="1..4", limits="no"),
                              dict(n="2,3", banks="1,2,4,7", structs="0,0,1,2", amts="1..8", limits="no")],
                     bbonly_runs=100, sweep="full", shuffle_runs=1500, seeds=2),
}

# antecedents that must have been exercised on the real code for a run to count (non-vacuity)
REQUIRED = {
    "C01": ["C01.pots", "C01.result", "C01.antePots"],
    "C04": ["C04.first", "C04.clockwise", "C04.refused"],
    "C05": ["C05.notEarly", "C05.oneLeft", "C05.noRoundWhenAllin", "C05.fullBoard", "C05.runout"],
    "C06": ["C06.start", "C06.succeeds", "C06.closedIsFinal"],
    "C11": ["C11.effect.Fold", "C11.effect.Check", "C11.effect.Call", "C11.effect.Bet", "C11.effect.Raise",
            "C11.effect.Allin", "C11.effect.Pass"],
    "C12": ["C12.raise.full", "C12.raise.undersized", "C12.raise.below", "C12.nonpositiveAmount"],
    "C13": ["C13.ante", "C13.blinds"],
    "C14": ["C14.shuffle", "C05.fullBoard", "C05.runout"],
}


# model side ---------------------------------------------------------------------------
MC_SCOPES = {
    "small": dict(NSet="{2,3}", BankSet="{1,2,3}", Structs="Structs <- StructsBasic", Limits='{"no"}', AmtLo="AmtLo <- MinusOne", AmtHi="5", S="2"),
    "cmp": dict(NSet="{2,3}", BankSet="{1,2,3}", Structs="Structs <- StructsBasic", Limits='{"no"}', AmtLo="1", AmtHi="4", S="1"),
    "medium": dict(NSet="{2,3}", BankSet="{1,2,4,7}", Structs="Structs <- StructsQuick", Limits='{"no"}', AmtLo="AmtLo <- MinusOne", AmtHi="8", S="2"),
    "structs": dict(NSet="{2,3}", BankSet="{1,2,3,5}", Structs="Structs <- StructsFull", Limits='{"no","pot"}', AmtLo="1", AmtHi="6", S="2"),
    "four": dict(NSet="{4}", BankSet="{1,2,5}", Structs="Structs <- StructsBasic", Limits='{"no"}', AmtLo="1", AmtHi="5", S="2"),
}


def model_check(work, scope, props, hist, mode="safety", timeout=1500):
    """TLC on MCHoldem in `scope` with the clauses of `props`.  mode: safety | cmp | live.
    The model does not depend on /repo; results are cached only when VERIF_CACHE is set."""
    sc = dict(MC_SCOPES[scope])
    consts = dict(sc)
    consts["Props"] = vlib.tla_set(props)
    consts["TrackHist"] = "TRUE" if hist else "FALSE"
    consts["RecordOut"] = "FALSE" if mode == "live" else "TRUE"
    name = "mc_%s_%s_%s" % (scope, mode, "".join(props))

    def compute():
        d = work.sub("mc")
        vlib.spec_copy(d)
        cfg = name + ".cfg"
        if mode == "live":
            vlib.write_cfg(os.path.join(d, cfg), spec="LiveSpec", constants=consts, properties=["Terminates"])
        else:
            vlib.write_cfg(os.path.join(d, cfg), constants=consts, invariants=["StateOK"] + (["StructOK"] if "C01" in props else []), properties=["StepOK"],
                           view="CmpView" if mode == "cmp" else "PropView")
        t0 = time.time()
        rc, out = vlib.tlc(d, "MCHoldem.tla", cfg, workers=vlib.NCPU, timeout=timeout)
        r = vlib.parse_mc(out)
        r["wall_s"] = round(time.time() - t0, 1)
        r["scope"] = dict(sc, name=scope, mode=mode, props=list(props), history_variables=bool(hist))
        if not r["ok"] and not r["violated"]:
            raise Inconclusive("model checking %s failed: %s" % (name, (r["error"] or "")[-1500:]))
        if r["violated"]:
            r["trace_tail"] = out[-6000:]
        return r

    if os.environ.get("VERIF_CACHE"):
        r = vlib.cached(name + "-" + vlib.spec_hash(json.dumps(consts, sort_keys=True)), compute)
    else:
        r = compute()
        r["cached"] = False
    log("[mc] %s: %d distinct / %d generated, ok=%s cached=%s (%.0fs)" % (name, r["distinct"], r["generated"], r["ok"],
                                                                         r["cached"], r.get("wall_s", 0)))
    return r


def sim_scripts(work, num, seed, outpath, base_run):
    """TLC -simulate on SimHoldem -> HScript NDJSON"""
    d = work.sub("sim")
    vlib.spec_copy(d)
    rc, out = vlib.tlc(d, "SimHoldem.tla", "SimHoldem.cfg", workers=1, timeout=900,
                       extra=["-simulate", "num=%d" % num, "-depth", "220", "-seed", str(seed)])
    seen, n = set(), 0
    std = [s + r for s in "SHDC" for r in "23456789TJQKA"]
    with open(outpath, "w") as f:
        for line in out.splitlines():
            if not line.startswith('<<"SCRIPT", "'):
                continue
            js = line[len('<<"SCRIPT", "'):-len('">>')].encode().decode("unicode_escape")
            if js in seen:
                continue
            seen.add(js)
            hist = json.loads(js)
            c = hist[0]
            nn = len(c["bank"])
            pos = []
            for i in range(nn):
                k = (i - c["dealer"] + nn) % nn
                if nn == 2:
                    pos.append(["dealer", "sb"] if k == 0 else ["bb"])
                else:
                    pos.append(["dealer"] if k == 0 else (["sb"] if k == 1 and not c["dead"] else (["bb"] if k == 2 else [])))
            cfg = dict(ante=c["st"][0], dealerBlind=c["st"][1], sb=c["st"][2], bb=c["st"][3], limit=c["limit"], holeN=2,
                       reqHole=0, ranking="standard", deckKind="std", bank=c["bank"], pos=pos, deck=std)
            ops = [dict(op=o["op"], seat=o["seat"], x=o["x"]) for o in hist[1:]]
            f.write(json.dumps(dict(run=base_run + n, cfg=cfg, ops=ops, note="tlc-simulate")) + "\n")
            n += 1
    if n == 0:
        raise Inconclusive("TLC simulation produced no scripts:\n" + out[-1500:])
    return n


# real side ----------------------------------------------------------------------------
class Drive:
    """collects the trace files of one check run together with how to regenerate each of them"""

    def __init__(self, work, binary):
        self.work, self.bin = work, binary
        self.files = {}  # trace path -> dict(kind, args, scripts)
        self.stats = {}
        self.d = work.sub("traces")
        self.n = 0

    def _p(self, name):
        self.n += 1
        return os.path.join(self.d, "%02d-%s" % (self.n, name))

    def random(self, name, runs, seed, flags=(), runbase=0):
        out, scr = self._p(name + ".ndjson"), self._p(name + ".scripts")
        st = vlib.drive(self.bin, ["holdem-random", "-runs", runs, "-seed", seed, "-o", out, "-scripts", scr,
                                   "-runbase", runbase] + list(flags))
        self.files[out] = dict(kind="script", scripts=scr)
        self.stats[name] = st
        if st.get("notClosed"):
            log("[drive] %s: %d hands did not reach GameClosed" % (name, st["notClosed"]))
        return st

    def replay(self, name, scripts, finish=True, seed=1):
        out, scr = self._p(name + ".ndjson"), self._p(name + ".scripts")
        args = ["holdem-replay", "-scripts", scripts, "-o", out, "-out-scripts", scr, "-seed", seed]
        if finish:
            args.append("-finish")
        st = vlib.drive(self.bin, args)
        self.files[out] = dict(kind="script", scripts=scr)
        self.stats[name] = st
        return st

    def explore(self, name, scope, refusals=False, shard=0, of=1):
        pref = self._p(name)
        args = ["holdem-explore", "-n", scope["n"], "-banks", scope["banks"], "-structs", scope["structs"], "-amts", scope["amts"],
                "-limits", scope["limits"], "-o", pref, "-workers", vlib.NCPU, "-shard", shard, "-of", of]
        if refusals:
            args.append("-refusals")
        st = vlib.drive(self.bin, args, timeout=7200)
        for f in sorted(glob.glob(pref + "-*.ndjson")):
            self.files[f] = dict(kind="explore", args=[str(a) for a in args])
        self.stats[name] = st
        return st

    def repotests(self, name="repotests"):
        """the repository's own scenario tests, every game wrapped by harness/vrec (DESIGN 3.5)"""
        out = self._p(name + ".ndjson")
        st = vlib.repo_tests_trace(self.work, self.bin, out)
        if st.get("lines"):
            self.files[out] = dict(kind="repotests")
        self.stats[name] = st
        return st

    def generic(self, name, sub, args):
        out, scr = self._p(name + ".ndjson"), self._p(name + ".scripts")
        st = vlib.drive(self.bin, [sub, "-o", out, "-scripts", scr] + list(args))
        self.files[out] = dict(kind="script", scripts=scr)
        self.stats[name] = st
        return st


def find_script(scripts_path, run):
    return vlib.find_script(scripts_path, run)


def signature(v, line, reset):
    st = (line or {}).get("state") or {}
    meta = st.get("meta") or {}
    feats = []
    if meta.get("dealerBlind") == 0 and meta.get("sb") == 0 and (meta.get("bb") or 0) > 0:
        feats.append("struct=bbOnly")
    op = (line or {}).get("op", "?")
    x = (line or {}).get("x", 0)
    if op in ("Bet", "Raise"):
        feats.append("x<=0" if x <= 0 else "x>0")
    return "|".join([v["clause"]] + feats + ["op=" + op])


def reproduce(prop, work, binary, v, info, line, resetline_obj):
    """replay the offending run from scratch and re-validate: a verdict only if it fails again (R1)"""
    d = work.sub("repro")
    desc = dict(property=prop, clause=v["clause"], kind=info["kind"], failing_line=line)
    if info["kind"] == "repotests":
        # the scenario test the failing call belongs to is run again, alone
        out = os.path.join(d, "replay.ndjson")
        st = vlib.repo_tests_trace(work, binary, out, only=line.get("test") or "Test.*")
        if not st.get("lines"):
            return False, None
        desc["kind"] = "repotests"
        desc["test"] = line.get("test")
    elif info["kind"] == "script":
        s = find_script(info["scripts"], line["run"])
        if s is None:
            return False, None
        sp = os.path.join(d, "script.ndjson")
        open(sp, "w").write(json.dumps(s) + "\n")
        out = os.path.join(d, "replay.ndjson")
        vlib.drive(binary, ["holdem-replay", "-scripts", sp, "-o", out])
        desc["script"] = s
    else:
        # explorer: re-explore the configuration the state belongs to (deterministic)
        cfgidx = line["run"] // 1000000
        args = [a for a in info["args"]]
        pref = os.path.join(d, "re")
        args[args.index("-o") + 1] = pref
        args += ["-only", str(cfgidx)]
        vlib.drive(binary, args, timeout=3600)
        out = sorted(glob.glob(pref + "-*.ndjson"))
        desc["explore_args"] = info["args"] + ["-only", str(cfgidx)]
        desc["state"] = resetline_obj
    files = out if isinstance(out, list) else [out]
    r = vlib.validate(work, files, "HoldemTrace.tla", [prop], nchunks=4, heap="3g")
    again = [x for x in r["viol"] if x["clause"] == v["clause"]]
    return bool(again), desc


def run_replay_file(prop, work, binary, path):
    desc = json.load(open(path))
    d = work.sub("replay")
    if desc.get("kind") == "repotests":
        out = [os.path.join(d, "replay.ndjson")]
        vlib.repo_tests_trace(work, binary, out[0], only=desc.get("test") or "Test.*")
    elif desc.get("kind") == "script":
        sp = os.path.join(d, "script.ndjson")
        open(sp, "w").write(json.dumps(desc["script"]) + "\n")
        out = [os.path.join(d, "replay.ndjson")]
        vlib.drive(binary, ["holdem-replay", "-scripts", sp, "-o", out[0]])
    else:
        args = list(desc["explore_args"])
        pref = os.path.join(d, "re")
        args[args.index("-o") + 1] = pref
        vlib.drive(binary, args, timeout=3600)
        out = sorted(glob.glob(pref + "-*.ndjson"))
    r = vlib.validate(work, out, "HoldemTrace.tla", [prop], nchunks=4, heap="3g")
    bad = [x for x in r["viol"] if x["clause"].startswith(prop)]
    if bad:
        print("VIOLATION property=%s replay=%s" % (prop, path))
        for x in bad[:5]:
            print("  clause %s at line %s" % (x["clause"], x["srcline"]))
        return 1
    print("replay of %s: no clause of %s fails" % (path, prop))
    return 0


# the check --------------------------------------------------------------------------------
def engine_check(prop, tier, seed, work, replay):
    t0 = time.time()
    T = TIER[tier]
    binary = vlib.build_harness(work)
    if replay:
        return run_replay_file(prop, work, binary, replay)

    # 1. model side (independent of /repo): the clauses of the property hold in the precise model in scope
    hist = prop in ("C05", "C06")
    mcs = [model_check(work, sc, [prop], hist, timeout=T["mc_timeout"]) for sc in T["mc_scopes"]]
    if prop == "C06":
        mcs.append(model_check(work, "cmp", [prop], False, mode="live", timeout=T["mc_timeout"]))
    mc_cmp = model_check(work, "cmp", [prop], False, mode="cmp", timeout=900)
    model_notes = ["clauses of %s violated in the MODEL in scope %s (%s): a model counterexample is not a verdict (R1)" % (
        prop, m["scope"]["name"], m["violated"]) for m in mcs if not m["ok"]]
    for nt in model_notes:
        print("MODEL-NOTE: " + nt)

    # 2. drive the real code
    dr = Drive(work, binary)
    for k, scope in enumerate(T["explore"]):
        dr.explore("explore%d" % k, scope, refusals=(prop in ("C04", "C12", "C06") and k == 0 and tier == "thorough"))
    cmp_real = dr.stats["explore0"]
    simfile = os.path.join(dr.d, "sim.scripts")
    nsim = sim_scripts(work, T["sim_num"], seed, simfile, 5000000)
    dr.replay("sim", simfile, finish=True, seed=seed)
    for s in range(T["seeds"]):
        dr.random("random%d" % s, T["random_runs"], seed * 1000 + s, ["-rehydrate", "9"], runbase=s * 100000)
    dr.repotests()
    # layouts in which no seat holds the big blind (half of them no small blind either): the engine accepts any layout with a dealer;
    # every call runs under a watchdog there, a call that never returns is recorded as the call's error (seeded change R5h-A)
    dr.random("nobb", 150 if tier == "quick" else 2500, seed * 1000 + 83, ["-nobb"], runbase=4500000)
    # unusual layouts the engine accepts: one dealer, small and big blind on independently drawn seats (the dealer may hold the big blind,
    # one seat both blinds, nobody the small blind) - seeded change R5l-A
    dr.random("oddroles", 150 if tier == "quick" else 2500, seed * 1000 + 84, ["-oddroles"], runbase=4700000)
    if prop in ("C04", "C12", "C06"):
        dr.random("probe", T["probe_runs"], seed * 1000 + 77, ["-probe"], runbase=1000000)
    if prop in ("C11", "C12", "C05", "C01"):
        dr.random("fork", T["fork_runs"], seed * 1000 + 78, ["-fork"], runbase=2000000)
    if prop in ("C13", "C01", "C04"):
        dr.generic("sweep", "holdem-sweep", ["-mode", T["sweep"], "-seed", seed])
    if prop == "C06":
        dr.generic("start", "holdem-start", ["-seed", seed])
    if prop == "C14":
        dr.random("shuffle", T["shuffle_runs"], seed * 1000 + 79, ["-realshuffle"], runbase=3000000)
        dr.random("fulldeck", 40 if tier == "quick" else 600, seed * 1000 + 81, ["-fulldeck", "-wrong=false"], runbase=3500000)
    # the known-finding shape (F6) is exercised apart so that it cannot mask anything
    dr_kf = None
    if prop in ("C13", "C06", "C01"):
        # (C06 / C01: a hand in which nobody ever puts a chip in - no forced bets are posted under this structure and every third
        # hand of the pass is checked down - must still close with a settlement result: seeded change R4c-B)
        dr_kf = Drive(work, binary)
        dr_kf.random("bbonly", T["bbonly_runs"], seed * 1000 + 80, ["-bbonly"], runbase=4000000)

    # 3. validate every recorded step against the property's clauses (and the precise model)
    files = sorted(dr.files)
    res = vlib.validate(work, files, "HoldemTrace.tla", [prop], nchunks=max(4, vlib.NCPU // 2) if tier == "quick" else 24,
                        heap="3g" if tier == "quick" else "5g", timeout=7200)
    log("[val] %d lines, %d failed clauses, %d drift lines, %.0fs" % (res["lines"], len(res["viol"]), len(res["drift"]), res["tlc_s"]))
    viols = list(res["viol"])
    allfiles = dict(dr.files)
    kf_res = None
    if dr_kf:
        kf_res = vlib.validate(work, sorted(dr_kf.files), "HoldemTrace.tla", [prop], nchunks=2, heap="3g", maxviol=400)
        viols += kf_res["viol"]
        allfiles.update(dr_kf.files)

    # 4. verdicts: reproduce, match against known findings
    rc, nviol, known_hit = verdict.judge(
        prop, tier, seed, viols, signature,
        lambda v, line, rs: reproduce(prop, work, binary, v, allfiles[v["src"]], line, rs))

    # 5. non-vacuity and both-sides comparison
    cnt = res["cnt"]
    missing = [a for a in REQUIRED.get(prop, []) if cnt.get(a, 0) == 0]
    both = dict(model_distinct=mc_cmp["distinct"], real_distinct=cmp_real.get("states"), equal=mc_cmp["distinct"] == cmp_real.get("states"))
    if not both["equal"]:
        print("MODEL-DRIFT: state count of the real engine (%s) differs from the model's (%s) in the comparison scope" % (
            both["real_distinct"], both["model_distinct"]))
    if res["drift"]:
        d0 = res["drift"][0]
        dl = vlib.read_line(d0["src"], d0["srcline"])
        print("MODEL-DRIFT: %d recorded steps are not steps of the precise model (first: op=%s seat=%s x=%s); not a verdict" % (
            len(res["drift"]), dl.get("op"), dl.get("seat"), dl.get("x")))

    # 6. evidence
    samples = []
    for f in files[:]:
        if "random0" in f or "sim" in f:
            ls = vlib.read_lines(f, 1, 12)
            samples.append({"file": os.path.basename(f), "calls": [[x["op"], x["seat"], x["x"], x["err"], x["state"]["ev"]] for x in ls]})
    runs = sum(1 for _ in [0]) and cnt.get("runs", 0) + res.get("chunks", 0)
    # C01, thorough tier: the TLAPS proof that Pay - the one chip-moving operator of the model - keeps the chip identity in EVERY state
    proof = vlib.tlaps_proof(work, "PayProof.tla") if prop == "C01" and tier == "thorough" else None
    coverage = {
        "states": sum(m["distinct"] for m in mcs), "transitions": sum(m["generated"] for m in mcs),
        "tlaps_proof": proof,
        "traces_validated_against_impl": int(runs),
        "samples": samples[:3],
        "model_checking": [{"scope": m["scope"], "distinct_states": m["distinct"], "generated": m["generated"],
                            "holds_in_model": m["ok"], "cached": m["cached"], "wall_s": m.get("wall_s")} for m in mcs + [mc_cmp]],
        "model_notes": model_notes,
        "both_sides_exploration": both,
        "real_steps_validated": res["lines"],
        "real_steps_by_source": {k: v for k, v in dr.stats.items()},
        "tlc_generated_scripts_replayed": nsim,
        "antecedents_exercised_on_real_code": {k: v for k, v in sorted(cnt.items())},
        "never_exercised": missing,
        "model_drift_lines": len(res["drift"]),
        "known_findings_hit": known_hit,
        "failed_clauses": sorted({v["clause"] for v in viols}),
        "exhaustive": False,
        "explanation": "TLC evaluates the clauses of %s (spec/HoldemProps.tla) on every step recorded from the real engine; "
                       "the precise model spec/Holdem.tla is model-checked against the same clauses in the scopes %s" % (prop, ",".join(T["mc_scopes"])),
    }
    if kf_res:
        coverage["known_finding_pass"] = {"lines": kf_res["lines"], "failed_clauses": len(kf_res["viol"])}
    vlib.write_evidence(prop, tier, seed, coverage, time.time() - t0, nviol,
                        assumptions=["the Go projection harness/cmd/vdrive/proj_holdem.go reports the engine state faithfully",
                                     "TLC and the TLA+ CommunityModules Json module",
                                     "operation alphabet: the 12 hand operations of DESIGN 2.1 (plumbing methods of the Game interface are not called)"])
    if rc == 0 and missing:
        print("INCONCLUSIVE property=%s antecedents never exercised on the real code: %s" % (prop, ",".join(missing)))
        return 2
    return rc


REGISTRY = {p: engine_check for p in ENGINE_PROPS}
